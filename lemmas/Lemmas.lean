/-
Lemmas over the contracts (DESIGN section 5).  They are mathematics, not models of the code: the level-P contracts
establish the hypotheses (the generator commutes with the number operator / is anti-Hermitian; the einsum pattern applies
K (x) I; sum K^H K = 1 is the run-time check of kraus_identity_check), these lemmas carry them to the property.
Checked by `lean` (Lean 4.33 / Mathlib) from setup.sh and by the checks that cite them.
-/
import Mathlib

open Matrix

/-- C11 / C12: a generator commuting with the (total) number operator gives an exponential commuting with it, hence the
distribution of the total photon number is invariant under `exp (i eta G)`; by induction, under any cascade. -/
theorem exp_commutes_of_generator_commutes {A : Type*} [NormedRing A] [NormedAlgebra ℚ A] [CompleteSpace A]
    (N G : A) (h : Commute N G) : Commute N (NormedSpace.exp G) :=
  h.exp_right

/-- cascade: if every element commutes with N, so does the product. -/
theorem cascade_commutes {A : Type*} [Monoid A] (N : A) (l : List A) (h : ∀ U ∈ l, Commute N U) : Commute N l.prod := by
  induction l with
  | nil => exact Commute.one_right N
  | cons U t ih =>
    rw [List.prod_cons]
    exact (h U (List.mem_cons_self)).mul_right (ih (fun V hV => h V (List.mem_cons_of_mem U hV)))

/-- C06 / C09: sum_i tr(K_i rho K_i^H) = tr((sum_i K_i^H K_i) rho). -/
theorem kraus_trace {n ι : Type*} [Fintype n] [DecidableEq n] [Fintype ι]
    (K : ι → Matrix n n ℂ) (ρ : Matrix n n ℂ) :
    ∑ i, Matrix.trace (K i * ρ * (K i)ᴴ) = Matrix.trace ((∑ i, (K i)ᴴ * K i) * ρ) := by
  rw [Finset.sum_mul, Matrix.trace_sum]
  refine Finset.sum_congr rfl (fun i _ => ?_)
  rw [Matrix.trace_mul_cycle, Matrix.mul_assoc]

/-- C06: a complete Kraus set preserves the trace; C09: the outcome probabilities of a complete measurement-operator
set sum to tr rho. -/
theorem complete_set_preserves_trace {n ι : Type*} [Fintype n] [DecidableEq n] [Fintype ι]
    (K : ι → Matrix n n ℂ) (ρ : Matrix n n ℂ) (hK : ∑ i, (K i)ᴴ * K i = 1) :
    ∑ i, Matrix.trace (K i * ρ * (K i)ᴴ) = Matrix.trace ρ := by
  rw [kraus_trace, hK, one_mul]

/-- C07: conjugation by a unitary preserves the trace. -/
theorem unitary_conj_trace {n : Type*} [Fintype n] [DecidableEq n] (U ρ : Matrix n n ℂ) (hU : Uᴴ * U = 1) :
    Matrix.trace (U * ρ * Uᴴ) = Matrix.trace ρ := by
  rw [Matrix.trace_mul_cycle, hU, one_mul]

/-- C07: conjugation preserves Hermiticity. -/
theorem conj_isHermitian {n : Type*} [Fintype n] (U ρ : Matrix n n ℂ) (hρ : ρ.IsHermitian) :
    (U * ρ * Uᴴ).IsHermitian := by
  unfold Matrix.IsHermitian
  rw [Matrix.conjTranspose_mul, Matrix.conjTranspose_mul, Matrix.conjTranspose_conjTranspose, hρ.eq, Matrix.mul_assoc]
