#!/usr/bin/env bash
# Offline build of the verification venv: python3.12 venv overlaying /venv (jax, numpy, scipy, repo deps)
# plus z3-solver, cvc5, icontract, jsonschema from the local wheelhouse. Idempotent.
set -euo pipefail
HERE="$(cd "$(dirname "$0")" && pwd)"
V="$HERE/.venv"
lean_warm() {
  # compile the Lean lemma library once (about 3 minutes cold, seconds warm); the checks use the cached verdict
  PYTHONPATH="$HERE" "$V/bin/python" -c "from vf import lemmas; ok, dt, msg = lemmas.compile_lemmas(); print('lean lemmas:', ok, round(dt, 1), 's', msg[:120])" || true
}
if [ -x "$V/bin/python" ] && "$V/bin/python" -c "import z3, icontract, jsonschema, jax" >/dev/null 2>&1; then
  lean_warm
  exit 0
fi
rm -rf "$V"
/venv/bin/python -m venv "$V"
PIP_NO_INDEX=1 "$V/bin/pip" install -q --no-index --find-links /opt/veriftools/wheels \
    z3-solver cvc5 icontract jsonschema sympy >/dev/null
SP="$("$V/bin/python" -c 'import site; print(site.getsitepackages()[0])')"
echo "import site; site.addsitedir('/venv/lib/python3.12/site-packages')" > "$SP/zz_repo.pth"
"$V/bin/python" -c "import z3, icontract, jsonschema, jax, numpy; print('verif venv ok', z3.get_version_string())"
lean_warm
