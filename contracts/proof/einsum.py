"""Level-P sidecar contracts for photon_weave/extra/einsum_constructor.py (DESIGN appendix A).

Every contract is written once against the two-backend DSL `q` (vf.pyvc.sym): with QSym it yields the
verification conditions, with QConc it is the executable contract used for replay and the
small-scope search.  Postconditions are stated *up to renaming of labels*: only equalities and
disequalities between labels, lengths and the label range are specified.

Ghost state shared by all eight generators (inputs S = state_objs, A = the second list):
  n = |S|, k = |A|, pos(j) = position in S of A[j], isk(i) <=> S[i] occurs in A,
  cnt(i) = number of members of A among S[0..i)   (cnt(0)=0, cnt(i+1)=cnt(i)+[isk(i)]).
Preconditions: S and A duplicate free (by identity), A contained in S, `in`/dict lookup decide by
identity (members are extracted subsystems), label budget of the form <= 26.
"""
from __future__ import annotations

import itertools

import z3

from vf.pyvc.sym import QConc, QSym, SList

PATH = "photon_weave/extra/einsum_constructor.py"


class SymGhost:
    def __init__(self):
        self.S = SList.named("S")
        self.A = SList.named("A")
        self.n, self.k = self.S.len, self.A.len
        self._pos = z3.Function("pos", z3.IntSort(), z3.IntSort())
        self._isk = z3.Function("isk", z3.IntSort(), z3.BoolSort())
        self._cnt = z3.Function("cnt", z3.IntSort(), z3.IntSort())

    def pos(self, j):
        return self._pos(j)

    def isk(self, i):
        return self._isk(i)

    def cnt(self, i):
        return self._cnt(i)

    def pre(self, budget):
        S, A, n, k = self.S, self.A, self.n, self.k
        a, b, j = z3.Ints("a b j")
        return [
            n >= 0, k >= 0, budget,
            z3.ForAll([a, b], z3.Implies(z3.And(0 <= a, a < b, b < n), S.at(a) != S.at(b))),
            z3.ForAll([a, b], z3.Implies(z3.And(0 <= a, a < b, b < k), A.at(a) != A.at(b))),
            z3.ForAll([a], z3.Implies(z3.And(0 <= a, a < k),
                                      z3.And(0 <= self._pos(a), self._pos(a) < n, S.at(self._pos(a)) == A.at(a)))),
            # ghost definitions
            z3.ForAll([a], z3.Implies(z3.And(0 <= a, a < n),
                                      self._isk(a) == z3.Exists([j], z3.And(0 <= j, j < k, A.at(j) == S.at(a))))),
            self._cnt(0) == 0,
            z3.ForAll([a], z3.Implies(z3.And(0 <= a, a < n),
                                      self._cnt(a + 1) == self._cnt(a) + z3.If(self._isk(a), 1, 0))),
        ]


class ConcGhost:
    def __init__(self, S, A):
        self.S, self.A = list(S), list(A)
        self.n, self.k = len(S), len(A)

    def pos(self, j):
        return self.S.index(self.A[j]) if 0 <= j < self.k else None

    def isk(self, i):
        return 0 <= i < self.n and self.S[i] in self.A

    def cnt(self, i):
        return sum(1 for x in self.S[:i] if x in self.A)


class GenContract:
    path = PATH
    name = ""
    ret_shape = []
    serves = []

    def budget(self, G):
        raise NotImplementedError

    def sym_inputs(self):
        G = SymGhost()
        return {"state_objs": G.S, self.second_param: G.A}, G, G.pre(self.budget(G))

    second_param = "states"

    def cover(self, G):
        # non-trivial instance: three members, two operands in reversed order
        return [G.n == 3, G.k == 2, G.pos(0) == 2, G.pos(1) == 0]

    def conc_ghost(self, S, A):
        return ConcGhost(S, A)

    def induction_lemmas(self, q, G):
        return []

    def small_scope(self, nmax):
        """all n <= nmax, all ordered duplicate-free sublists A of S (within the label budget)."""
        for n in range(1, nmax + 1):
            S = list(range(100, 100 + n))
            for k in range(0, n + 1):
                if not self.k_ok(n, k):
                    continue
                for A in itertools.permutations(S, k):
                    yield S, list(A)

    def k_ok(self, n, k):
        return True


def _hit(q, G, i):
    """S[i] is addressed by the second list (ghost isk)."""
    return G.isk(i)


def _rng(q, L, bound):
    return q.forall(0, L.len, lambda b: q.all(0 <= L.at(b), L.at(b) < bound))


# ================================================================================================
class ApplyOperatorVector(GenContract):
    name = "apply_operator_vector"
    second_param = "operator_objs"
    ret_shape = ["L", ",", "L", "->", "L"]
    serves = ["C01", "C03", "C06"]

    def budget(self, G):
        return G.n + 1 + G.k <= 26

    def invariants(self, q, G):
        S, A, n, k = G.S, G.A, G.n, G.k

        def dict_base(R):   # established by loop 1
            return [("dict-first", q.forall(0, n, lambda a: q.all(R.D.has(S.at(a)), R.D.get(S.at(a)).len >= 1,
                                                                 R.D.get(S.at(a)).at(0) == a)))]

        def st_done(R):
            return [("st-len", R.LL(1).len == n + 1), ("st-id", q.forall(0, n + 1, lambda a: R.LL(1).at(a) == a)),
                    ("ed", R.X(0) == n)]

        def dict_op(R, upto):
            return [("dict-second", q.forall(0, upto, lambda a: q.all(R.D.get(A.at(a)).len == 2,
                                                                      R.D.get(A.at(a)).at(1) == n + 1 + a)))]

        def inv1(R, i):
            return [("range", q.all(0 <= i, i <= n)), ("counter", R.C == i), ("st-len", R.LL(1).len == i),
                    ("st-id", q.forall(0, i, lambda a: R.LL(1).at(a) == a)),
                    ("dict-done", q.forall(0, i, lambda a: q.all(R.D.has(S.at(a)), R.D.get(S.at(a)).len == 1,
                                                                  R.D.get(S.at(a)).at(0) == a))),
                    ("dict-todo", q.forall(i, n, lambda a: q.all(R.D.has(S.at(a)), R.D.get(S.at(a)).len == 0)))]

        def inv2(R, j):
            return dict_base(R) + [
                ("range", q.all(0 <= j, j <= k)), ("counter", R.C == n + 1 + j), ("op-len", R.LL(0).len == j),
                ("op-rng", _rng(q, R.LL(0), n + 1 + k)),
                ("op-fresh", q.forall(0, j, lambda a: R.LL(0).at(a) == n + 1 + a))] + dict_op(R, j) + [
                ("dict-todo", q.forall(j, k, lambda a: R.D.get(A.at(a)).len == 1))]

        def inv3(R, j):
            return dict_base(R) + dict_op(R, k) + [
                ("range", q.all(0 <= j, j <= k)), ("op-len", R.LL(0).len == k + j),
                ("op-rng", _rng(q, R.LL(0), n + 1 + k)),
                ("op-fresh", q.forall(0, k, lambda a: R.LL(0).at(a) == n + 1 + a)),
                ("op-in", q.forall(0, j, lambda a: R.LL(0).at(k + a) == G.pos(a)))]

        def inv4(R, i):
            return dict_base(R) + dict_op(R, k) + [
                ("range", q.all(0 <= i, i <= n)), ("out-len", R.LL(2).len == i),
                ("out-hit", q.forall_pair(0, i, 0, k, lambda a, jj: q.implies(G.pos(jj) == a, R.LL(2).at(a) == n + 1 + jj))),
                ("out-miss", q.forall(0, i, lambda a: q.implies(q.neg(_hit(q, G, a)), R.LL(2).at(a) == a))),
                ("out-range", q.forall(0, i, lambda a: q.all(0 <= R.LL(2).at(a), R.LL(2).at(a) < n + 1 + k)))]

        return {1: inv1, 2: inv2, 3: inv3, 4: inv4}

    def post(self, q, G, ret):
        OP, ST, OUT = ret
        n, k = G.n, G.k
        return [
            ("lengths", q.all(q.len(ST) == n + 1, q.len(OP) == 2 * k, q.len(OUT) == n + 1)),
            ("state-labels-injective", q.forall2(0, n + 1, lambda a, b: q.implies(a < b, q.at(ST, a) != q.at(ST, b)))),
            ("operator-out-labels-fresh", q.forall_pair(0, k, 0, n + 1, lambda a, b: q.at(OP, a) != q.at(ST, b))),
            ("operator-out-labels-injective", q.forall2(0, k, lambda a, b: q.implies(a < b, q.at(OP, a) != q.at(OP, b)))),
            ("binding-in-axis-j-is-operand-j", q.forall(0, k, lambda a: q.at(OP, k + a) == q.at(ST, G.pos(a)))),
            ("result-takes-out-axis-of-operand", q.forall_pair(0, n, 0, k, lambda a, j: q.implies(G.pos(j) == a, q.at(OUT, a) == q.at(OP, j)))),
            ("result-keeps-untouched-axes", q.forall(0, n, lambda a: q.implies(q.neg(_hit(q, G, a)), q.at(OUT, a) == q.at(ST, a)))),
            ("trailing-axis-kept", q.at(OUT, n) == q.at(ST, n)),
        ]


# ================================================================================================
class ApplyOperatorMatrix(GenContract):
    name = "apply_operator_matrix"
    second_param = "operator_objs"
    ret_shape = ["L", ",", "L", ",", "L", "->", "L"]
    serves = ["C01", "C03", "C06", "C09"]

    def budget(self, G):
        return 2 * G.n + 2 * G.k <= 26

    def k_ok(self, n, k):
        return 2 * n + 2 * k <= 26

    def invariants(self, q, G):
        S, A, n, k = G.S, G.A, G.n, G.k

        def dget(R, x):
            return R.D.get(x)

        def rows(R, upto, exact_len=None):
            return q.forall(0, upto, lambda a: q.all(R.D.has(S.at(a)), dget(R, S.at(a)).len >= 1, dget(R, S.at(a)).at(0) == a))

        def base2(R):   # after loops 1, 2
            return [("dict-rows-cols", q.forall(0, n, lambda a: q.all(R.D.has(S.at(a)), dget(R, S.at(a)).len >= 2,
                                                                      dget(R, S.at(a)).at(0) == a, dget(R, S.at(a)).at(1) == n + a)))]

        def base3(R, upto):  # D[A[j]][2] == 2n + j
            return [("dict-op1", q.forall(0, upto, lambda a: q.all(dget(R, A.at(a)).len >= 3, dget(R, A.at(a)).at(2) == 2 * n + a)))]

        def base5(R, upto):  # D[A[j]][3] == 2n + k + j
            return [("dict-op2", q.forall(0, upto, lambda a: q.all(dget(R, A.at(a)).len >= 4, dget(R, A.at(a)).at(3) == 2 * n + k + a)))]

        def inv1(R, i):
            return [("range", q.all(0 <= i, i <= n)), ("counter", R.C == i), ("st-len", R.LL(1).len == i),
                    ("st-id", q.forall(0, i, lambda a: R.LL(1).at(a) == a)),
                    ("dict-done", q.forall(0, i, lambda a: q.all(R.D.has(S.at(a)), dget(R, S.at(a)).len == 1, dget(R, S.at(a)).at(0) == a))),
                    ("dict-todo", q.forall(i, n, lambda a: q.all(R.D.has(S.at(a)), dget(R, S.at(a)).len == 0)))]

        def inv2(R, i):
            return [("range", q.all(0 <= i, i <= n)), ("counter", R.C == n + i), ("st-len", R.LL(1).len == n + i),
                    ("st-id", q.forall(0, n + i, lambda a: R.LL(1).at(a) == a)),
                    ("dict-done", q.forall(0, i, lambda a: q.all(R.D.has(S.at(a)), dget(R, S.at(a)).len == 2,
                                                                  dget(R, S.at(a)).at(0) == a, dget(R, S.at(a)).at(1) == n + a))),
                    ("dict-todo", q.forall(i, n, lambda a: q.all(R.D.has(S.at(a)), dget(R, S.at(a)).len == 1, dget(R, S.at(a)).at(0) == a)))]

        def inv3(R, j):
            return base2(R) + base3(R, j) + [
                ("range", q.all(0 <= j, j <= k)), ("counter", R.C == 2 * n + j), ("op1-len", R.LL(0).len == j),
                ("op1-rng", _rng(q, R.LL(0), 2 * n + 2 * k)),
                ("dict-op1-exact", q.forall(0, j, lambda a: dget(R, A.at(a)).len == 3)),
                ("op1-fresh", q.forall(0, j, lambda a: R.LL(0).at(a) == 2 * n + a)),
                ("dict-todo", q.forall(j, k, lambda a: dget(R, A.at(a)).len == 2))]

        def inv4(R, j):
            return [
                ("range", q.all(0 <= j, j <= k)), ("op1-len", R.LL(0).len == k + j),
                ("op1-rng", _rng(q, R.LL(0), 2 * n + 2 * k)),
                ("op1-fresh", q.forall(0, k, lambda a: R.LL(0).at(a) == 2 * n + a)),
                ("op1-in", q.forall(0, j, lambda a: R.LL(0).at(k + a) == G.pos(a)))]

        def inv5(R, j):
            return base2(R) + base3(R, k) + base5(R, j) + [
                ("range", q.all(0 <= j, j <= k)), ("counter", R.C == 2 * n + k + j), ("op2-len", R.LL(2).len == j),
                ("op2-rng", _rng(q, R.LL(2), 2 * n + 2 * k)),
                ("op2-fresh", q.forall(0, j, lambda a: R.LL(2).at(a) == 2 * n + k + a)),
                ("dict-todo", q.forall(j, k, lambda a: dget(R, A.at(a)).len == 3))]

        def inv6(R, j):
            return [
                ("range", q.all(0 <= j, j <= k)), ("op2-len", R.LL(2).len == k + j),
                ("op2-rng", _rng(q, R.LL(2), 2 * n + 2 * k)),
                ("op2-fresh", q.forall(0, k, lambda a: R.LL(2).at(a) == 2 * n + k + a)),
                ("op2-in", q.forall(0, j, lambda a: R.LL(2).at(k + a) == n + G.pos(a)))]

        def inv7(R, i):
            return [
                ("range", q.all(0 <= i, i <= n)), ("out-len", R.LL(3).len == i),
                ("out-hit", q.forall_pair(0, i, 0, k, lambda a, jj: q.implies(G.pos(jj) == a, R.LL(3).at(a) == 2 * n + jj))),
                ("out-miss", q.forall(0, i, lambda a: q.implies(q.neg(_hit(q, G, a)), R.LL(3).at(a) == a))),
                ("out-range", q.forall(0, i, lambda a: q.all(0 <= R.LL(3).at(a), R.LL(3).at(a) < 2 * n + 2 * k)))]

        def inv8(R, i):
            return [
                ("range", q.all(0 <= i, i <= n)), ("out-len", R.LL(3).len == n + i),
                ("out-hit", q.forall_pair(0, n, 0, k, lambda a, jj: q.implies(G.pos(jj) == a, R.LL(3).at(a) == 2 * n + jj))),
                ("out-miss", q.forall(0, n, lambda a: q.implies(q.neg(_hit(q, G, a)), R.LL(3).at(a) == a))),
                ("out2-hit", q.forall_pair(0, i, 0, k, lambda a, jj: q.implies(G.pos(jj) == a, R.LL(3).at(n + a) == 2 * n + k + jj))),
                ("out2-miss", q.forall(0, i, lambda a: q.implies(q.neg(_hit(q, G, a)), R.LL(3).at(n + a) == n + a))),
                ("out-range", q.forall(0, n + i, lambda a: q.all(0 <= R.LL(3).at(a), R.LL(3).at(a) < 2 * n + 2 * k)))]

        return {1: inv1, 2: inv2, 3: inv3, 4: inv4, 5: inv5, 6: inv6, 7: inv7, 8: inv8}

    def post(self, q, G, ret):
        OP1, ST, OP2, OUT = ret
        n, k = G.n, G.k
        return [
            ("lengths", q.all(q.len(ST) == 2 * n, q.len(OP1) == 2 * k, q.len(OP2) == 2 * k, q.len(OUT) == 2 * n)),
            ("state-labels-injective", q.forall2(0, 2 * n, lambda a, b: q.implies(a < b, q.at(ST, a) != q.at(ST, b)))),
            ("op1-out-fresh", q.forall_pair(0, k, 0, 2 * n, lambda a, b: q.at(OP1, a) != q.at(ST, b))),
            ("op2-out-fresh", q.forall_pair(0, k, 0, 2 * n, lambda a, b: q.at(OP2, a) != q.at(ST, b))),
            ("op1-op2-out-disjoint", q.forall2(0, k, lambda a, b: q.at(OP1, a) != q.at(OP2, b))),
            ("op1-out-injective", q.forall2(0, k, lambda a, b: q.implies(a < b, q.at(OP1, a) != q.at(OP1, b)))),
            ("op2-out-injective", q.forall2(0, k, lambda a, b: q.implies(a < b, q.at(OP2, a) != q.at(OP2, b)))),
            ("binding-row-axis-j-is-operand-j", q.forall(0, k, lambda a: q.at(OP1, k + a) == q.at(ST, G.pos(a)))),
            ("binding-col-axis-j-is-operand-j", q.forall(0, k, lambda a: q.at(OP2, k + a) == q.at(ST, n + G.pos(a)))),
            ("result-row-hit", q.forall_pair(0, n, 0, k, lambda a, j: q.implies(G.pos(j) == a, q.at(OUT, a) == q.at(OP1, j)))),
            ("result-col-hit", q.forall_pair(0, n, 0, k, lambda a, j: q.implies(G.pos(j) == a, q.at(OUT, n + a) == q.at(OP2, j)))),
            ("result-row-miss", q.forall(0, n, lambda a: q.implies(q.neg(_hit(q, G, a)), q.at(OUT, a) == q.at(ST, a)))),
            ("result-col-miss", q.forall(0, n, lambda a: q.implies(q.neg(_hit(q, G, a)), q.at(OUT, n + a) == q.at(ST, n + a)))),
        ]


# ================================================================================================
class ReorderVector(GenContract):
    name = "reorder_vector"
    ret_shape = ["L", "->", "L"]
    serves = ["C02"]

    def budget(self, G):
        return z3.And(G.n + 1 <= 26, G.k == G.n)      # the second list is a permutation of S

    def cover(self, G):
        return [G.n == 3, G.k == 3, G.pos(0) == 2, G.pos(1) == 0, G.pos(2) == 1]

    def k_ok(self, n, k):
        return k == n

    def invariants(self, q, G):
        S, n = G.S, G.n

        def inv1(R, i):
            return [("range", q.all(0 <= i, i <= n)), ("counter", R.C == i + 1), ("other", R.X(0) == 0),
                    ("in-len", R.LL(0).len == i), ("in-id", q.forall(0, i, lambda a: R.LL(0).at(a) == a + 1)),
                    ("dict-dom", q.forall(0, n, lambda a: R.D.has(S.at(a)))),
                    ("dict", q.forall(0, i, lambda a: R.D.get(S.at(a)) == a + 1))]
        return {1: inv1}

    def post(self, q, G, ret):
        IN, OUT = ret
        n = G.n
        return [
            ("lengths", q.all(q.len(IN) == n + 1, q.len(OUT) == n + 1)),
            ("in-labels-injective", q.forall2(0, n + 1, lambda a, b: q.implies(a < b, q.at(IN, a) != q.at(IN, b)))),
            ("out-j-is-axis-of-new-j", q.forall(0, n, lambda j: q.at(OUT, j) == q.at(IN, G.pos(j)))),
            ("trailing-axis-kept", q.at(OUT, n) == q.at(IN, n)),
        ]


class ReorderMatrix(GenContract):
    name = "reorder_matrix"
    ret_shape = ["L", "->", "L"]
    serves = ["C02"]

    def budget(self, G):
        return z3.And(2 * G.n <= 26, G.k == G.n)

    def cover(self, G):
        return [G.n == 3, G.k == 3, G.pos(0) == 2, G.pos(1) == 0, G.pos(2) == 1]

    def k_ok(self, n, k):
        return k == n

    def invariants(self, q, G):
        S, A, n, k = G.S, G.A, G.n, G.k

        def inv1(R, i):
            return [("range", q.all(0 <= i, i <= n)), ("counter", R.C == i), ("in-len", R.LL(0).len == i),
                    ("in-id", q.forall(0, i, lambda a: R.LL(0).at(a) == a)),
                    ("dict-done", q.forall(0, i, lambda a: q.all(R.D.has(S.at(a)), R.D.get(S.at(a)).len == 1, R.D.get(S.at(a)).at(0) == a))),
                    ("dict-todo", q.forall(i, n, lambda a: q.all(R.D.has(S.at(a)), R.D.get(S.at(a)).len == 0)))]

        def inv2(R, i):
            return [("range", q.all(0 <= i, i <= n)), ("counter", R.C == n + i), ("in-len", R.LL(0).len == n + i),
                    ("in-id", q.forall(0, n + i, lambda a: R.LL(0).at(a) == a)),
                    ("dict-done", q.forall(0, i, lambda a: q.all(R.D.has(S.at(a)), R.D.get(S.at(a)).len == 2,
                                                                  R.D.get(S.at(a)).at(0) == a, R.D.get(S.at(a)).at(1) == n + a))),
                    ("dict-todo", q.forall(i, n, lambda a: q.all(R.D.has(S.at(a)), R.D.get(S.at(a)).len == 1, R.D.get(S.at(a)).at(0) == a)))]

        def inv3(R, j):
            return [("range", q.all(0 <= j, j <= k)), ("out-len", R.LL(1).len == j), ("out-rng", _rng(q, R.LL(1), 2 * n)),
                    ("out-rows", q.forall(0, j, lambda a: R.LL(1).at(a) == G.pos(a)))]

        def inv4(R, j):
            return [("range", q.all(0 <= j, j <= k)), ("out-len", R.LL(1).len == k + j), ("out-rng", _rng(q, R.LL(1), 2 * n)),
                    ("out-rows", q.forall(0, k, lambda a: R.LL(1).at(a) == G.pos(a))),
                    ("out-cols", q.forall(0, j, lambda a: R.LL(1).at(k + a) == n + G.pos(a)))]
        return {1: inv1, 2: inv2, 3: inv3, 4: inv4}

    def post(self, q, G, ret):
        IN, OUT = ret
        n = G.n
        return [
            ("lengths", q.all(q.len(IN) == 2 * n, q.len(OUT) == 2 * n)),
            ("in-labels-injective", q.forall2(0, 2 * n, lambda a, b: q.implies(a < b, q.at(IN, a) != q.at(IN, b)))),
            ("out-row-j-is-row-of-new-j", q.forall(0, n, lambda j: q.at(OUT, j) == q.at(IN, G.pos(j)))),
            ("out-col-j-is-col-of-new-j", q.forall(0, n, lambda j: q.at(OUT, n + j) == q.at(IN, n + G.pos(j)))),
        ]


# ================================================================================================
def _vector_marginal_post(q, G, ret):
    """IN injective of length n+1; OUT = labels of the kept members in S order, then the trailing label.
    Pattern class: *sum over dropped axes* (legal on probability tensors only — the callers' clauses of
    C02/C04 decide that)."""
    IN, OUT = ret
    n = G.n
    return [
        ("lengths", q.all(q.len(IN) == n + 1, q.len(OUT) == G.cnt(n) + 1)),
        ("in-labels-injective", q.forall2(0, n + 1, lambda a, b: q.implies(a < b, q.at(IN, a) != q.at(IN, b)))),
        ("kept-in-S-order", q.forall(0, n, lambda a: q.implies(G.isk(a), q.at(OUT, G.cnt(a)) == q.at(IN, a)))),
        ("trailing-axis-kept", q.at(OUT, G.cnt(n)) == q.at(IN, n)),
    ]


def _cnt_lemmas(q, G):
    """Facts about the ghost counter cnt, proved by induction from its recursive definition, then
    used in quantifier-flattened form."""
    n = G.n
    P = lambda i: q.all(
        0 <= G.cnt(i), G.cnt(i) <= i,
        q.forall_pair(0, i, 0, i + 1, lambda a, b: q.implies(q.all(a < b, G.isk(a)), G.cnt(a) < G.cnt(b))),
        q.forall_pair(0, i + 1, 0, i + 1, lambda a, b: q.implies(a <= b, G.cnt(a) <= G.cnt(b))))
    flats = [
        ("bounds", q.forall(0, n + 1, lambda a: q.all(0 <= G.cnt(a), G.cnt(a) <= a))),
        ("strict", q.forall_pair(0, n, 0, n + 1, lambda a, b: q.implies(q.all(a < b, G.isk(a)), G.cnt(a) < G.cnt(b)))),
        ("mono", q.forall_pair(0, n + 1, 0, n + 1, lambda a, b: q.implies(a <= b, G.cnt(a) <= G.cnt(b)))),
    ]
    return [("cnt", P, flats)]


def _vector_marginal_inv(q, G):
    n = G.n

    def inv1(R, i):
        return [("range", q.all(0 <= i, i <= n)), ("counter", R.C == i), ("in-len", R.LL(0).len == i),
                ("in-id", q.forall(0, i, lambda a: R.LL(0).at(a) == a)),
                ("out-len", R.LL(1).len == G.cnt(i)),
                ("out-kept", q.forall(0, i, lambda a: q.implies(G.isk(a), R.LL(1).at(G.cnt(a)) == a))),
                ("out-range", q.forall(0, R.LL(1).len, lambda b: q.all(0 <= R.LL(1).at(b), R.LL(1).at(b) < i)))]
    return {1: inv1}


class TraceOutVector(GenContract):
    def induction_lemmas(self, q, G):
        return _cnt_lemmas(q, G)

    name = "trace_out_vector"
    ret_shape = ["L", "->", "L"]
    serves = ["C02"]

    def budget(self, G):
        return G.n + 1 <= 26

    def invariants(self, q, G):
        return _vector_marginal_inv(q, G)

    def post(self, q, G, ret):
        return _vector_marginal_post(q, G, ret)


class MeasureVector(GenContract):
    def induction_lemmas(self, q, G):
        return _cnt_lemmas(q, G)

    name = "measure_vector"
    ret_shape = ["L", "->", "L"]
    serves = ["C04"]

    def budget(self, G):
        return G.n + 1 <= 26

    def invariants(self, q, G):
        return _vector_marginal_inv(q, G)

    def post(self, q, G, ret):
        return _vector_marginal_post(q, G, ret)


# ================================================================================================
def _matrix_ptrace_post(q, G, ret):
    """Partial trace pattern: a kept member has distinct row / column labels, each occurring once in IN;
    a traced-out member has ONE label shared by its row and its column and by nothing else;
    OUT = kept rows in S order, then kept columns in S order."""
    IN, OUT = ret
    n = G.n
    R_ = lambda a: q.at(IN, a)
    C_ = lambda a: q.at(IN, n + a)
    return [
        ("lengths", q.all(q.len(IN) == 2 * n, q.len(OUT) == 2 * G.cnt(n))),
        ("traced-row-equals-col", q.forall(0, n, lambda a: q.implies(q.neg(G.isk(a)), R_(a) == C_(a)))),
        ("kept-row-differs-from-col", q.forall(0, n, lambda a: q.implies(G.isk(a), R_(a) != C_(a)))),
        ("rows-of-different-members-differ", q.forall2(0, n, lambda a, b: q.implies(a != b, R_(a) != R_(b)))),
        ("row-differs-from-other-members-col", q.forall2(0, n, lambda a, b: q.implies(a != b, R_(a) != C_(b)))),
        ("cols-of-different-members-differ", q.forall2(0, n, lambda a, b: q.implies(a < b, C_(a) != C_(b)))),
        ("kept-rows-in-S-order", q.forall(0, n, lambda a: q.implies(G.isk(a), q.at(OUT, G.cnt(a)) == R_(a)))),
        ("kept-cols-in-S-order", q.forall(0, n, lambda a: q.implies(G.isk(a), q.at(OUT, G.cnt(n) + G.cnt(a)) == C_(a)))),
    ]


class TraceOutMatrix(GenContract):
    def induction_lemmas(self, q, G):
        return _cnt_lemmas(q, G)

    name = "trace_out_matrix"
    ret_shape = ["L", "->", "L"]
    serves = ["C02", "C09", "C10"]

    def budget(self, G):
        return 2 * G.n <= 26

    def invariants(self, q, G):
        return _matrix_ptrace_inv(q, G)

    def post(self, q, G, ret):
        return _matrix_ptrace_post(q, G, ret)


class MeasureMatrix(GenContract):
    def induction_lemmas(self, q, G):
        return _cnt_lemmas(q, G)

    name = "measure_matrix"
    ret_shape = ["L", "->", "L"]
    serves = ["C04"]

    def budget(self, G):
        return 2 * G.n <= 26

    def invariants(self, q, G):
        return _matrix_ptrace_inv(q, G)

    def post(self, q, G, ret):
        return _matrix_ptrace_post(q, G, ret)


def _matrix_ptrace_inv(q, G):
    """Invariants for the shape both matrix marginal generators have after the repair
    (rows pass: every member gets a fresh label, remembered in the dict; columns pass: kept members
    get a fresh label, traced-out members reuse their row label)."""
    S, n = G.S, G.n

    def cnt_facts(i):
        return []

    def inv1(R, i):
        return [("range", q.all(0 <= i, i <= n)), ("counter", R.C == i), ("in-len", R.LL(0).len == i),
                ("in-id", q.forall(0, i, lambda a: R.LL(0).at(a) == a)), ("in-rng", _rng(q, R.LL(0), 2 * n)),
                ("dict-dom", q.forall(0, n, lambda a: R.D.has(S.at(a)))),
                ("dict", q.forall(0, i, lambda a: R.D.get(S.at(a)) == a)),
                ("out-len", R.LL(1).len == G.cnt(i))] + cnt_facts(i) + [
                ("out-kept", q.forall(0, i, lambda a: q.implies(G.isk(a), R.LL(1).at(G.cnt(a)) == a))),
                ("out-range", q.forall(0, R.LL(1).len, lambda b: q.all(0 <= R.LL(1).at(b), R.LL(1).at(b) < n)))]

    def inv2(R, i):
        return [("range", q.all(0 <= i, i <= n)), ("counter", R.C == n + G.cnt(i)), ("in-len", R.LL(0).len == n + i),
                ("in-rows", q.forall(0, n, lambda a: R.LL(0).at(a) == a)), ("in-rng", _rng(q, R.LL(0), 2 * n)),
                # column facts quantify over the absolute index c = n + a (no arithmetic inside select patterns)
                ("in-cols-kept", q.forall(n, n + i, lambda c: q.implies(G.isk(c - n), R.LL(0).at(c) == n + G.cnt(c - n)))),
                ("in-cols-traced", q.forall(n, n + i, lambda c: q.implies(q.neg(G.isk(c - n)), R.LL(0).at(c) == c - n))),
                ("dict-dom", q.forall(0, n, lambda a: R.D.has(S.at(a)))),
                ("dict", q.forall(0, n, lambda a: R.D.get(S.at(a)) == a)),
                ("out-len", R.LL(1).len == G.cnt(n) + G.cnt(i))] + cnt_facts(i) + [
                ("out-rows", q.forall(0, n, lambda a: q.implies(G.isk(a), R.LL(1).at(G.cnt(a)) == a))),
                ("out-cols", q.forall(0, i, lambda a: q.implies(G.isk(a), R.LL(1).at(G.cnt(n) + G.cnt(a)) == n + G.cnt(a)))),
                ("out-range", q.forall(0, R.LL(1).len, lambda b: q.all(0 <= R.LL(1).at(b), R.LL(1).at(b) < 2 * n)))]
    return {1: inv1, 2: inv2}


ALL = [ApplyOperatorVector(), ApplyOperatorMatrix(), ReorderVector(), ReorderMatrix(),
       TraceOutVector(), TraceOutMatrix(), MeasureVector(), MeasureMatrix()]
BY_NAME = {c.name: c for c in ALL}
