"""Function-level tensor contracts (level P, vf/pyvc/tensorexec.py) for the methods that split a stored state, contract it
with an einsum string and merge it back.  Lists: Mem = self.state_objs, Tg = the caller's operands in the caller's order
(blocks: T = the operands, R = the rest), Ord = the new order handed to reorder (a permutation of Mem).  Symbols: psi / rho =
the stored vector / density matrix at the time it is read, O = operation.operator (a matrix over Tg: its k-th tensor factor
belongs to the k-th operand - the statement of C03), K = the generic element of the operator list, Ksel = operators[outcome].
The spec terms are written in index notation, independently of any einsum string."""
from vf.pyvc.tensorexec import Ctx, gv, con, base_tensor, AList, AOps, ATensor

COMP = "photon_weave/state/composite_envelope.py"


def _apply_vec(sym="O"):
    return con([(sym, False, (gv(T="a"), gv(T="b"))), ("psi", False, (gv(T="b", R="r"),))], [gv(T="a", R="r")])


def _apply_mat(sym="O", rho="rho"):
    return con([(sym, False, (gv(T="a"), gv(T="b"))), (rho, False, (gv(T="b", R="r"), gv(T="d", R="s"))), (sym, True, (gv(T="c"), gv(T="d")))],
               [gv(T="a", R="r"), gv(T="c", R="s")])


def _reduced_apply(sym="K", rho="rho"):
    # Tr_R [ (K x I) rho (K x I)^dagger ]
    return con([(sym, False, (gv(T="a"), gv(T="b"))), (rho, False, (gv(T="b", R="r"), gv(T="d", R="r"))), (sym, True, (gv(T="c"), gv(T="d")))],
               [gv(T="a"), gv(T="c")])


def _ctx():
    return Ctx({"Mem": ("R", "T"), "Tg": ("T",)})


def _env_ops(ctx):
    return {"states": AList("Tg"), "operation.operator": base_tensor("O", ["Tg", "Tg"], ctx)}


def _env_kraus(ctx):
    return {"states": AList("Tg"), "operators": AOps(base_tensor("K", ["Tg", "Tg"], ctx), "K")}


def _fields(ctx, level):
    st = base_tensor("psi", ["Mem", "one"], ctx) if level == "Vector" else base_tensor("rho", ["Mem", "Mem"], ctx)
    return {"state": st, "state_objs": AList("Mem"), "expansion_level": level}


def _div(t, how):
    return ("div", t, (how, t))


SPECS = []

# ---- ProductState.apply_operation: (O x I) psi   /   (O x I) rho (O x I)^dagger, optionally renormalised; member list unchanged
for level in ("Vector", "Matrix"):
    for ren in (False, True):
        base = _apply_vec() if level == "Vector" else _apply_mat()
        SPECS.append({
            "function": f"{COMP}::ProductState.apply_operation", "case": f"{level}:renormalize={ren}", "level": level, "ctx": _ctx, "env": _env_ops, "fields": _fields,
            "decide": {"operation.renormalize": ren, "C.contractions": True},
            "ignore_calls": ("self.container",), "havoc_calls": (), "checkpoint_calls": (),
            "expect_state": (_div(base, "norm" if level == "Vector" else "trace") if ren else base),
            "expect_layout": ("Mem", "one") if level == "Vector" else ("Mem", "Mem"), "expect_members": "Mem", "min_sites": 4,
            "properties": ["C01", "C03"]})

# ---- ProductState.apply_kraus: sum_K (K x I) rho (K x I)^dagger  (rho = |psi><psi| after expand for a vector)
for level in ("Vector", "Matrix"):
    SPECS.append({
        "function": f"{COMP}::ProductState.apply_kraus", "case": level, "level": level, "ctx": _ctx, "env": _env_kraus, "fields": _fields,
        "decide": {"C.contractions": True}, "ignore_calls": ("self.container",), "havoc_calls": (), "checkpoint_calls": (),
        "expect_state": ("sumops", _apply_mat("K")), "expect_layout": ("Mem", "Mem"), "expect_members": "Mem", "min_sites": 4,
        "properties": ["C06"]})

# ---- ProductState.measure_POVM: p_K = Re Tr[(K x I) rho (K x I)^dagger] for every K; post state (Ksel x I) rho (Ksel x I)^dagger / trace
for level in ("Vector", "Matrix"):
    SPECS.append({
        "function": f"{COMP}::ProductState.measure_POVM", "case": level, "level": level, "ctx": _ctx, "env": _env_kraus, "fields": _fields,
        "decide": {"C.contractions": True, "destructive": False}, "ignore_calls": ("self.container",), "havoc_calls": (), "checkpoint_calls": (),
        "expect_state": _div(_apply_mat("Ksel"), "trace"), "expect_layout": ("Mem", "Mem"), "expect_members": "Mem", "probs_normalized": True,
        "expect_probs": ("re", ("trace", _reduced_apply("K"))), "probs_var": "prob_list", "min_sites": 6,
        "properties": ["C09", "C05"]})

# ---- ProductState.trace_out (matrix level): returns Tr_R rho as a matrix over Tg, in the order of the request
SPECS.append({
    "function": f"{COMP}::ProductState.trace_out", "case": "Matrix", "level": "Matrix", "ctx": _ctx, "env": lambda ctx: {"states": AList("Tg")}, "fields": _fields,
    "decide": {}, "ignore_calls": (), "havoc_calls": (), "checkpoint_calls": (),
    "expect_return": con([("rho", False, (gv(T="a", R="r"), gv(T="c", R="r")))], [gv(T="a"), gv(T="c")]), "expect_return_layout": ("Tg", "Tg"),
    "expect_members": "Mem", "min_sites": 3, "properties": ["C02"]})


# ---- ProductState.reorder: same state, axes in the new order, member list == new order
def _ctx_reorder():
    return Ctx({"Mem": ("A",), "Ord": ("A",)}, perms={"Ord": "Mem"})


for level in ("Vector", "Matrix"):
    SPECS.append({
        "function": f"{COMP}::ProductState.reorder", "case": level, "level": level, "ctx": _ctx_reorder, "env": lambda ctx: {"ordered_states": AList("Ord")},
        "fields": _fields, "decide": {}, "ignore_calls": ("self.container",), "havoc_calls": (), "checkpoint_calls": (),
        "expect_state": (con([("psi", False, (gv(A="i"),))], [gv(A="i")]) if level == "Vector" else con([("rho", False, (gv(A="i"), gv(A="j")))], [gv(A="i"), gv(A="j")])),
        "expect_layout": ("Ord", "one") if level == "Vector" else ("Ord", "Ord"), "expect_members": "Ord", "min_sites": 3,
        # every routed request reorders first: the contracts of C01 / C03 / C06 / C09 along a history rest on this one
        "properties": ["C01", "C02", "C03", "C06", "C09", "C13"]})


# ---- stand-alone subsystems (own state): O psi / O rho O^dagger with literal einsum strings; channel through ops.apply_kraus
def _ctx_me():
    return Ctx({"Me": ("S",)})


def _fields_me(ctx, level):
    st = base_tensor("psi", ["Me", "one"], ctx) if level == "Vector" else base_tensor("rho", ["Me", "Me"], ctx)
    return {"state": st, "state_objs": AList("Me"), "expansion_level": level}


_OWN = {"isinstance(self.index, int)": False, "isinstance(self.index, tuple)": False, "isinstance(self.index, (list, tuple))": False,
        "self.expansion_level < operation.required_expansion_level": False, "C.contractions": True}
for rel, cls in (("photon_weave/state/fock.py", "Fock"), ("photon_weave/state/polarization.py", "Polarization"), ("photon_weave/state/custom_state.py", "CustomState")):
    for level in ("Vector", "Matrix"):
        for ren in (False, True):
            base = (con([("O", False, (gv(S="a"), gv(S="b"))), ("psi", False, (gv(S="b"),))], [gv(S="a")]) if level == "Vector" else
                    con([("O", False, (gv(S="a"), gv(S="b"))), ("rho", False, (gv(S="b"), gv(S="d"))), ("O", True, (gv(S="c"), gv(S="d")))], [gv(S="a"), gv(S="c")]))
            SPECS.append({
                "function": f"{rel}::{cls}.apply_operation", "case": f"own:{level}:renormalize={ren}", "level": level, "ctx": _ctx_me,
                "env": lambda ctx: {"operation.operator": base_tensor("O", ["Me", "Me"], ctx)}, "fields": _fields_me,
                "decide": dict(_OWN, **{"operation.renormalize": ren}),
                "ignore_calls": ("self.trace_out", "self._num_quanta"), "havoc_calls": ("self.resize",), "checkpoint_calls": (),
                "expect_state": (_div(base, "norm" if level == "Vector" else "trace") if ren else base),
                "expect_layout": ("Me", "one") if level == "Vector" else ("Me", "Me"), "expect_members": "Me", "min_sites": 2, "properties": ["C01"]})

_KR = con([("K", False, (gv(S="a"), gv(S="b"))), ("rho", False, (gv(S="b"), gv(S="d"))), ("K", True, (gv(S="c"), gv(S="d")))], [gv(S="a"), gv(S="c")])
SPECS.append({
    "function": "photon_weave/_math/ops.py::apply_kraus", "case": "all", "level": "Matrix", "ctx": _ctx_me, "is_method": False,
    "env": lambda ctx: {"density_matrix": base_tensor("rho", ["Me", "Me"], ctx), "kraus_operators": AOps(base_tensor("K", ["Me", "Me"], ctx), "K")},
    "fields": lambda ctx, level: {}, "decide": {}, "ignore_calls": (), "havoc_calls": (), "checkpoint_calls": (),
    "expect_return": ("sumops", _KR), "expect_return_layout": ("Me", "Me"), "min_sites": 0, "properties": ["C06"]})
for level in ("Vector", "Matrix"):
    SPECS.append({
        "function": "photon_weave/state/base_state.py::BaseState.apply_kraus", "case": f"own:{level}", "level": level, "ctx": _ctx_me,
        "env": lambda ctx: {"operators": AOps(base_tensor("K", ["Me", "Me"], ctx), "K")}, "fields": _fields_me, "decide": dict(_OWN),
        "ignore_calls": (), "havoc_calls": (), "checkpoint_calls": (),
        "expect_state": ("sumops", _KR), "expect_layout": ("Me", "Me"), "expect_members": "Me", "min_sites": 2, "properties": ["C06"]})


# ---- ProductState.measure: one subsystem per iteration.  Lists of the generic iteration: Cur = the members still present
# (blocks s = the subsystem measured now, Q = the others), S1 = [s], Rest = Cur without s.
def _ctx_measure():
    return Ctx({"Mem": ("Q", "s"), "Tg": ("s",), "Cur": ("Q", "s"), "S1": ("s",), "Rest": ("Q",)}, minus={("Cur", "s"): "Rest"})


_LOOP = {"over": "Tg", "cur": "Cur", "next": "Rest", "member": "s"}
for level in ("Vector", "Matrix"):
    if level == "Vector":
        marg = con([("|psi_k|^2", False, (gv(s="a", Q="q"),))], [gv(s="a")])
        final = _div(con([("psi_f", False, (gv(Q="q"),))], [gv(Q="q")]), "norm")
    else:
        marg = ("abs", con([("rho_k", False, (gv(s="a", Q="q"), gv(s="a", Q="q")))], [gv(s="a")]))
        final = _div(con([("rho_f", False, (gv(Q="q"), gv(Q="p")))], [gv(Q="q"), gv(Q="p")]), "trace")
    SPECS.append({
        "function": f"{COMP}::ProductState.measure", "case": level, "level": level, "ctx": _ctx_measure, "env": lambda ctx: {"states": AList("Tg")}, "fields": _fields,
        "decide": {"C.contractions": True, "len(self.state_objs) > 0": True}, "ignore_calls": ("self.container",), "havoc_calls": (), "checkpoint_calls": (),
        "loop": _LOOP, "expect_draw": ("div", marg, ("sum", marg)),
        "expect_state": final, "expect_layout": ("Rest", "one") if level == "Vector" else ("Rest", "Rest"), "expect_members": "Rest", "min_sites": 4,
        "properties": ["C04", "C05", "C13"]})


# ---- Envelope (two members, stored in the order Env = [t, o] once `reorder(*states)` has run: t = the addressed member first)
def _ctx_env():
    return Ctx({"Env": ("o", "t"), "Tl": ("t",), "Ol": ("o",)}, order={"Env": ("Tl", "Ol")})


def _fields_env(ctx, level):
    st = base_tensor("psi", ["Env", "one"], ctx) if level == "Vector" else base_tensor("rho", ["Env", "Env"], ctx)
    return {"state": st, "state_objs": AList("Env"), "expansion_level": level}


ENVF = "photon_weave/state/envelope.py"
_ENV_DEC = {"self.state is None": False, "C.contractions": True, "states[0] is not self.fock and states[0] is not self.polarization": False}
for tname, members in (("fock", {"fock": "t", "polarization": "o"}), ("polarization", {"fock": "o", "polarization": "t"})):
    for level in ("Vector", "Matrix"):
        for ren in (False, True):
            if level == "Vector":
                base = con([("O", False, (gv(t="a"), gv(t="b"))), ("psi", False, (gv(t="b", o="r"),))], [gv(t="a", o="r")])
            else:
                base = con([("O", False, (gv(t="a"), gv(t="b"))), ("rho", False, (gv(t="b", o="r"), gv(t="d", o="s"))), ("O", True, (gv(t="c"), gv(t="d")))],
                           [gv(t="a", o="r"), gv(t="c", o="s")])
            SPECS.append({
                "function": f"{ENVF}::Envelope.apply_operation", "case": f"combined:target={tname}:{level}:renormalize={ren}", "level": level, "ctx": _ctx_env,
                "env": lambda ctx: {"states": AList("Tl"), "operation.operator": base_tensor("O", ["Tl", "Tl"], ctx)}, "fields": _fields_env,
                "env_members": members, "env_list": "Env",
                "decide": dict(_ENV_DEC, **{"operation.renormalize": ren}),
                "ignore_calls": ("self.reorder", "self.fock.trace_out", "self.fock", "self.polarization"), "havoc_calls": (), "checkpoint_calls": (),
                "expect_state": (_div(base, "norm" if level == "Vector" else "trace") if ren else base),
                "expect_layout": ("Env", "one") if level == "Vector" else ("Env", "Env"), "expect_members": "Env", "min_sites": 3, "properties": ["C01"]})

_ENVK = con([("K", False, (gv(t="a", o="e"), gv(t="b", o="f"))), ("rho", False, (gv(t="b", o="f"), gv(t="d", o="h"))), ("K", True, (gv(t="c", o="g"), gv(t="d", o="h")))],
            [gv(t="a", o="e"), gv(t="c", o="g")])
_ENVK1 = con([("K", False, (gv(t="a"), gv(t="b"))), ("rho", False, (gv(t="b", o="r"), gv(t="d", o="s"))), ("K", True, (gv(t="c"), gv(t="d")))],
             [gv(t="a", o="r"), gv(t="c", o="s")])
_ENVK_DEC = {"self.state is None": False, "C.contractions": True, "self.state is None and any((isinstance(s.index, tuple) for s in states))": False,
             "len(states) == 1 and self.state is None": False, "len(states) > 2": False}
for tname, members in (("fock", {"fock": "t", "polarization": "o"}), ("polarization", {"fock": "o", "polarization": "t"})):
    for level in ("Vector", "Matrix"):
        SPECS.append({
            "function": f"{ENVF}::Envelope.apply_kraus", "case": f"combined:one-target={tname}:{level}", "level": level, "ctx": _ctx_env,
            "env": lambda ctx: {"states": AList("Tl"), "operators": AOps(base_tensor("K", ["Tl", "Tl"], ctx), "K")}, "fields": _fields_env,
            "env_members": members, "env_list": "Env", "decide": dict(_ENVK_DEC, **{"len(states) == 2": False, "len(states) == 1": True}),
            "ignore_calls": ("self.reorder", "self.fock", "self.polarization"), "havoc_calls": (), "checkpoint_calls": (),
            "expect_state": ("sumops", _ENVK1), "expect_layout": ("Env", "Env"), "expect_members": "Env", "min_sites": 4, "properties": ["C06"]})
        SPECS.append({
            "function": f"{ENVF}::Envelope.apply_kraus", "case": f"combined:both:first={tname}:{level}", "level": level, "ctx": _ctx_env,
            "env": lambda ctx: {"states": AList("Env"), "operators": AOps(base_tensor("K", ["Env", "Env"], ctx), "K")}, "fields": _fields_env,
            "env_members": members, "env_list": "Env", "decide": dict(_ENVK_DEC, **{"len(states) == 2": True, "len(states) == 1": False}),
            "ignore_calls": ("self.reorder", "self.fock", "self.polarization"), "havoc_calls": (), "checkpoint_calls": (),
            "expect_state": ("sumops", _ENVK), "expect_layout": ("Env", "Env"), "expect_members": "Env", "min_sites": 1, "properties": ["C06"]})


# ---- resize_fock (C10): growing pads the axes of the Fock member with zeros, shrinking (when the guard lets it) cuts them;
# rows and columns together, every other axis untouched, the stored axis order is still the member order
def _ctx_resize():
    return Ctx({"Mem": ("R", "f")})


def _resized(sym, how, blk, matrix, other):
    vs = (gv(**{blk: "i", other: "r"}), gv(**{blk: "j", other: "s"})) if matrix else (gv(**{blk: "i", other: "r"}),)
    return (f"{how}:{blk}", con([(sym, False, vs)], list(vs)))


for level in ("Vector", "Matrix"):
    for how in ("pad", "cut"):
        grow = how == "pad"
        SPECS.append({
            "function": f"{COMP}::ProductState.resize_fock", "case": f"{level}:{'grow' if grow else 'shrink'}", "level": level, "ctx": _ctx_resize,
            "env": lambda ctx: {"fock": __import__("vf.pyvc.tensorexec", fromlist=["AMember"]).AMember("f"), "new_dimensions": ("newdim",)}, "fields": _fields,
            "decide": {"new_dimensions > fock.dimensions": grow, "new_dimensions < fock.dimensions": not grow, "num_quanta >= new_dimensions": False},
            "ignore_calls": ("self.container",), "havoc_calls": (), "checkpoint_calls": (),
            "expect_state": _resized("psi" if level == "Vector" else "rho", how, "f", level == "Matrix", "R"),
            "expect_layout": ("Mem", "one") if level == "Vector" else ("Mem", "Mem"), "expect_members": "Mem", "min_sites": 3, "properties": ["C10"]})
for fpos, members in (("first", {"fock": "t", "polarization": "o"}), ("second", {"fock": "o", "polarization": "t"})):
    fb = members["fock"]
    ob = members["polarization"]
    for level in ("Vector", "Matrix"):
        for how in ("pad", "cut"):
            grow = how == "pad"
            SPECS.append({
                "function": f"{ENVF}::Envelope.resize_fock", "case": f"combined:fock-{fpos}:{level}:{'grow' if grow else 'shrink'}", "level": level, "ctx": _ctx_env,
                "env": lambda ctx: {"new_dimensions": ("newdim",)}, "fields": _fields_env, "env_members": members, "env_list": "Env",
                "decide": {"self.state is None": False, "new_dimensions > self.fock.dimensions": grow, "new_dimensions < self.fock.dimensions": not grow,
                           "new_dimensions <= self.fock.dimensions": not grow, "num_quanta >= new_dimensions": False},
                "ignore_calls": ("self.trace_out", "self.fock", "self.polarization"), "havoc_calls": (), "checkpoint_calls": (),
                "expect_state": _resized("psi" if level == "Vector" else "rho", how, fb, level == "Matrix", ob),
                "expect_layout": ("Env", "one") if level == "Vector" else ("Env", "Env"), "expect_members": "Env", "min_sites": 3, "properties": ["C10"]})


# ---- Envelope.reorder (the non-trivial branch: the stored order is the other one): same state, axes exchanged, indices exchanged
def _ctx_env_swap():
    return Ctx({"Env": ("o", "t"), "EnvS": ("o", "t"), "Tl": ("t",), "Ol": ("o",)}, order={"Env": ("Tl", "Ol"), "EnvS": ("Ol", "Tl")}, perms={"Env": "EnvS", "EnvS": "Env"})


for fpos, members in (("first", {"fock": "t", "polarization": "o"}), ("second", {"fock": "o", "polarization": "t"})):
    for level in ("Vector", "Matrix"):
        same = (con([("psi", False, (gv(t="i", o="j"),))], [gv(t="i", o="j")]) if level == "Vector" else
                con([("rho", False, (gv(t="i", o="j"), gv(t="k", o="l")))], [gv(t="i", o="j"), gv(t="k", o="l")]))
        SPECS.append({
            "function": f"{ENVF}::Envelope.reorder", "case": f"swap:fock-{fpos}:{level}", "level": level, "ctx": _ctx_env_swap,
            "env": lambda ctx: {}, "fields": _fields_env, "env_members": members, "env_list": "Env",
            "decide": {"self.state is None": False, "current_order[0] is states_list[0] and current_order[1] is states_list[1]": False,
                       "len(states_list) == 2": False, "len(states_list) > 2": False, "len(states_list) == 1": False},
            "ignore_calls": ("self.fock", "self.polarization"), "havoc_calls": (), "checkpoint_calls": (),
            "expect_state": same, "expect_layout": ("EnvS", "one") if level == "Vector" else ("EnvS", "EnvS"), "expect_members": "EnvS", "min_sites": 4,
            "properties": ["C02", "C13"]})


# ---- Envelope.measure_POVM on a combined stand-alone envelope (non-destructive paths): probabilities and post state
_ENVP_DEC = {"self.state is None": False, "C.contractions": True, "destructive": False, "self.composite_envelope_id is not None": False,
             "len(states) == 2 and self.state is None": False, "len(states) == 1 and self.state is None": False, "self.measured": False,
             "len(states) > 2": False, "len(states) == 0": False}
for tname, members in (("fock", {"fock": "t", "polarization": "o"}), ("polarization", {"fock": "o", "polarization": "t"})):
    for level in ("Vector", "Matrix"):
        SPECS.append({
            "function": f"{ENVF}::Envelope.measure_POVM", "case": f"combined:one-target={tname}:{level}", "level": level, "ctx": _ctx_env,
            "env": lambda ctx: {"states": AList("Tl"), "operators": AOps(base_tensor("K", ["Tl", "Tl"], ctx), "K")}, "fields": _fields_env,
            "env_members": members, "env_list": "Env", "decide": dict(_ENVP_DEC, **{"len(states) == 2": False, "len(states) == 1": True}),
            "ignore_calls": ("self.reorder", "self.fock", "self.polarization"), "havoc_calls": (), "checkpoint_calls": (),
            "expect_state": _div(con([("Ksel", False, (gv(t="a"), gv(t="b"))), ("rho", False, (gv(t="b", o="r"), gv(t="d", o="s"))), ("Ksel", True, (gv(t="c"), gv(t="d")))],
                                     [gv(t="a", o="r"), gv(t="c", o="s")]), "trace"),
            "expect_layout": ("Env", "Env"), "expect_members": "Env",
            "expect_probs": ("re", ("trace", con([("K", False, (gv(t="a"), gv(t="b"))), ("rho", False, (gv(t="b", o="r"), gv(t="d", o="r"))), ("K", True, (gv(t="c"), gv(t="d")))],
                                                   [gv(t="a"), gv(t="c")]))),
            "probs_var": "probabilities", "min_sites": 5, "properties": ["C09"]})
        SPECS.append({
            "function": f"{ENVF}::Envelope.measure_POVM", "case": f"combined:both:first={tname}:{level}", "level": level, "ctx": _ctx_env,
            "env": lambda ctx: {"states": AList("Env"), "operators": AOps(base_tensor("K", ["Env", "Env"], ctx), "K")}, "fields": _fields_env,
            "env_members": members, "env_list": "Env", "decide": dict(_ENVP_DEC, **{"len(states) == 2": True, "len(states) == 1": False}),
            "ignore_calls": ("self.reorder", "self.fock", "self.polarization"), "havoc_calls": (), "checkpoint_calls": (),
            "expect_state": _div(con([("Ksel", False, (gv(t="a", o="e"), gv(t="b", o="f"))), ("rho", False, (gv(t="b", o="f"), gv(t="d", o="h"))),
                                      ("Ksel", True, (gv(t="c", o="g"), gv(t="d", o="h")))], [gv(t="a", o="e"), gv(t="c", o="g")]), "trace"),
            "expect_layout": ("Env", "Env"), "expect_members": "Env",
            "expect_probs": ("re", ("trace", con([("K", False, (gv(t="a", o="e"), gv(t="b", o="f"))), ("rho", False, (gv(t="b", o="f"), gv(t="d", o="h"))),
                                                   ("K", True, (gv(t="c", o="g"), gv(t="d", o="h")))], [gv(t="a", o="e"), gv(t="c", o="g")]))),
            "probs_var": "probabilities", "min_sites": 1, "properties": ["C09"]})


# ---- Fock.measure on an own state (C04): Born-rule distribution, support, and the label left behind is the drawn outcome
for level in ("Vector", "Matrix"):
    if level == "Vector":
        p = con([("|psi|^2", False, (gv(S="a"),))], [gv(S="a")])       # stored vectors are normalised (representation invariant, C07)
    else:
        d = con([("rho", False, (gv(S="a"), gv(S="a")))], [gv(S="a")])
        p = ("div", d, ("sum", d))
    SPECS.append({
        "function": "photon_weave/state/fock.py::Fock.measure", "case": f"own:{level}", "level": level, "ctx": _ctx_me,
        "env": lambda ctx: {"self": __import__("vf.pyvc.tensorexec", fromlist=["AMember"]).AMember("S")}, "fields": _fields_me,
        "decide": {"self.measured": False, "isinstance(self.index, int)": False, "isinstance(self.index, tuple)": False,
                   "isinstance(self.index, tuple) or isinstance(self.index, list)": False, "self.index is not None": False,
                   "isinstance(self.index, int) and (not separate_measurement)": False, "isinstance(self.index, int) and separate_measurement": False,
                   "destructive": False, "self.envelope is not None and (not separate_measurement)": False},
        "ignore_calls": ("self._set_measured", "self.envelope"), "havoc_calls": (), "checkpoint_calls": (),
        "expect_label_draw": {"p": p, "a": ("range", "Me")}, "min_sites": 1, "properties": ["C04"]})


# ---- ProductState.trace_out, vector level: kept members to the front in the requested order, then reduced_state(amplitudes)
def _ctx_to_vec():
    return Ctx({"Mem": ("R", "T"), "Tg": ("T",), "Rst": ("R",)}, rest={("Mem", "Tg"): "Rst"})


SPECS.append({
    "function": f"{COMP}::ProductState.trace_out", "case": "Vector", "level": "Vector", "ctx": _ctx_to_vec, "env": lambda ctx: {"states": AList("Tg")}, "fields": _fields,
    "decide": {}, "ignore_calls": (), "havoc_calls": (), "checkpoint_calls": (),
    "expect_return": con([("psi", False, (gv(T="a", R="r"),)), ("psi", True, (gv(T="c", R="r"),))], [gv(T="a"), gv(T="c")]), "expect_return_layout": ("Tg", "Tg"),
    "expect_members": "Mem", "min_sites": 4, "properties": ["C02"]})
SPECS.append({
    "function": f"{COMP}::reduced_state", "case": "mixed-branch", "level": "Matrix", "ctx": lambda: Ctx({"Ka": ("a",), "Tr": ("b",)}), "is_method": False,
    "env": lambda ctx: {"amplitudes": base_tensor("A", ["Ka", "Tr"], ctx)}, "fields": lambda ctx, level: {},
    "decide": {"jnp.abs(purity - 1) < tol": False}, "ignore_calls": (), "havoc_calls": (), "checkpoint_calls": (),
    "expect_return": con([("A", False, (gv(a="i"), gv(b="k"))), ("A", True, (gv(a="j"), gv(b="k")))], [gv(a="i"), gv(a="j")]), "expect_return_layout": ("Ka", "Ka"),
    "min_sites": 0, "properties": ["C02"]})
