"""./check selftest [names...]: applies each seeded change under /verif/seeded/<name>/patch.diff to a scratch copy of /repo
(outside /repo and /verif), runs the checks listed in its meta.json with VERIF_REPO pointing at the copy, expects a
VIOLATION, and removes the copy.  Also runs the harmless-change catalogue (must stay exit 0)."""
from __future__ import annotations

import json
import os
import shutil
import subprocess
import sys
import tempfile
from pathlib import Path

from vf import common


def main(argv) -> int:
    seeded = common.VERIF / "seeded"
    names = argv or sorted(p.name for p in seeded.iterdir() if (p / "patch.diff").exists())
    ok = True
    for nm in names:
        d = seeded / nm
        meta = json.loads((d / "meta.json").read_text())
        tmp = Path(tempfile.mkdtemp(prefix="verif_selftest_"))
        try:
            shutil.copytree("/repo/photon_weave", tmp / "photon_weave")
            r = subprocess.run(["git", "apply", "--unsafe-paths", "--directory", str(tmp), str(d / "patch.diff")], cwd="/", capture_output=True, text=True)
            if r.returncode != 0:
                r = subprocess.run(["patch", "-p1", "-d", str(tmp), "-i", str(d / "patch.diff")], capture_output=True, text=True)
            if r.returncode != 0:
                print(f"[selftest] {nm}: patch does not apply: {r.stderr.strip()[:200]}")
                ok = False
                continue
            expect = meta.get("expect", "violation")
            for pid in meta["checks"]:
                env = dict(os.environ, VERIF_REPO=str(tmp), VERIF_SCRATCH_OUT=str(tmp / "out"))
                p = subprocess.run([str(common.VERIF / "check"), pid, "--tier", meta.get("tier", "quick")], capture_output=True, text=True, env=env)
                got = "violation" if (p.returncode == 1 and "VIOLATION" in p.stdout) else ("pass" if p.returncode == 0 else f"exit{p.returncode}")
                flag = "ok" if got == expect else "MISMATCH"
                print(f"[selftest] {nm} {pid}: expected {expect}, got {got} [{flag}]")
                if got != expect:
                    ok = False
                    print(p.stdout[-600:])
        finally:
            shutil.rmtree(tmp, ignore_errors=True)
    return 0 if ok else 1
