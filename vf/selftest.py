"""./check selftest [names...]: applies each seeded change under /verif/seeded/<name>/patch.diff to a scratch copy of /repo
(outside /repo and /verif), runs the checks listed in its meta.json with VERIF_REPO pointing at the copy, expects a
VIOLATION, and removes the copy.  Also runs the harmless-change catalogue (must stay exit 0)."""
from __future__ import annotations

import json
import os
import shutil
import subprocess
import sys
import tempfile
from pathlib import Path

from vf import common


def main(argv) -> int:
    seeded = common.VERIF / "seeded"
    names = argv or sorted(p.name for p in seeded.iterdir() if (p / "patch.diff").exists())
    ok = True
    for nm in names:
        d = seeded / nm
        meta = json.loads((d / "meta.json").read_text())
        tmp = Path(tempfile.mkdtemp(prefix="verif_selftest_"))
        try:
            shutil.copytree("/repo/photon_weave", tmp / "photon_weave")
            r = subprocess.run(["git", "apply", "--unsafe-paths", "--directory", str(tmp), str(d / "patch.diff")], cwd="/", capture_output=True, text=True)
            if r.returncode != 0:
                r = subprocess.run(["patch", "-p1", "-d", str(tmp), "-i", str(d / "patch.diff")], capture_output=True, text=True)
            if r.returncode != 0:
                print(f"[selftest] {nm}: patch does not apply: {r.stderr.strip()[:200]}")
                ok = False
                continue
            expect = meta.get("expect", "violation")
            for pid in meta["checks"]:
                env = dict(os.environ, VERIF_REPO=str(tmp), VERIF_SCRATCH_OUT=str(tmp / "out"))
                p = subprocess.run([str(common.VERIF / "check"), pid, "--tier", meta.get("tier", "quick")], capture_output=True, text=True, env=env)
                got = "violation" if (p.returncode == 1 and "VIOLATION" in p.stdout) else ("pass" if p.returncode == 0 else f"exit{p.returncode}")
                flag = "ok" if got == expect else "MISMATCH"
                print(f"[selftest] {nm} {pid}: expected {expect}, got {got} [{flag}]")
                if got != expect:
                    ok = False
                    print(p.stdout[-600:])
        finally:
            shutil.rmtree(tmp, ignore_errors=True)
    return 0 if ok else 1


def harmless(argv) -> int:
    """./check selftest-harmless [names...]: applies each behaviour-preserving refactoring under /verif/harmless/<name>.diff to a scratch copy
    of /repo and runs the level-P part of every check on it (VERIF_P_ONLY=1): every check must exit 0 and print no VIOLATION line.
    (The bounded level-B part tests behaviour, which these patches do not change; run a check without VERIF_P_ONLY to include it.)"""
    import concurrent.futures as cf
    hd = common.VERIF / "harmless"
    names = argv or sorted(p.stem for p in hd.glob("*.diff"))
    checks = [f"C{i:02d}" for i in range(1, 21)]

    def one(nm):
        tmp = Path(tempfile.mkdtemp(prefix="verif_harmless_"))
        out = []
        try:
            shutil.copytree("/repo/photon_weave", tmp / "photon_weave")
            r = subprocess.run(["patch", "-p1", "-s", "-d", str(tmp), "-i", str(hd / f"{nm}.diff")], capture_output=True, text=True)
            if r.returncode != 0:
                return [(nm, "-", "patch does not apply", False)]
            for pid in checks:
                env = dict(os.environ, VERIF_REPO=str(tmp), VERIF_SCRATCH_OUT=str(tmp / "out"), VERIF_P_ONLY="1")
                p = subprocess.run([str(common.VERIF / "check"), pid, "--tier", "quick"], capture_output=True, text=True, env=env)
                good = p.returncode == 0 and "VIOLATION" not in p.stdout
                nc = p.stdout.count("NOT-COVERED")
                if not good or nc:
                    out.append((nm, pid, f"exit {p.returncode}, {nc} NOT-COVERED line(s)", good))
        finally:
            shutil.rmtree(tmp, ignore_errors=True)
        return out or [(nm, "*", "all twenty checks exit 0, fully covered at level P", True)]
    ok = True
    with cf.ThreadPoolExecutor(6) as ex:
        for res in ex.map(one, names):
            for nm, pid, msg, good in res:
                print(f"[selftest-harmless] {nm} {pid}: {msg} [{'ok' if good else 'FALSE ALARM'}]")
                ok = ok and good
    return 0 if ok else 1
