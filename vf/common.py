"""Shared plumbing: paths, report object, evidence writer, known findings, exit codes.

Exit codes (DESIGN section 6): 0 held / 1 VIOLATION / 2 undecided / 3 checker broken.
"""
from __future__ import annotations

import hashlib
import json
import os
import sys
import time
from dataclasses import dataclass, field
from pathlib import Path
from typing import Any, Dict, List, Optional

VERIF = Path(__file__).resolve().parent.parent
REPO = Path(os.environ.get("VERIF_REPO", "/repo")).resolve()
# Evidence and replays of the registered checks describe /repo itself.  When a check is pointed at a scratch copy
# (VERIF_REPO, used by selftest / mutant runs) nothing under /verif/evidence is touched.
_SCRATCH = REPO != Path("/repo")
EVIDENCE_DIR = (Path(os.environ.get("VERIF_SCRATCH_OUT", "/tmp/verif_scratch_out")) / "evidence") if _SCRATCH else VERIF / "evidence"
REPLAY_DIR = (Path(os.environ.get("VERIF_SCRATCH_OUT", "/tmp/verif_scratch_out")) / "replays") if _SCRATCH else VERIF / "replays"
KNOWN_FINDINGS = VERIF / "known_findings.json"


def use_repo() -> None:
    """Make `import photon_weave` resolve to $VERIF_REPO (default /repo) working tree."""
    p = str(REPO)
    if sys.path[0] != p:
        sys.path.insert(0, p)
    os.environ.setdefault("JAX_PLATFORMS", "cpu")


def seed() -> int:
    try:
        return int(os.environ.get("VERIF_SEED", "0"))
    except ValueError:
        return 0


_BASEFN = None


def baseline_functions() -> Dict[str, str]:
    global _BASEFN
    if _BASEFN is None:
        try:
            _BASEFN = json.load(open(VERIF / "contracts" / "baseline_functions.json"))
        except Exception:
            _BASEFN = {}
    return _BASEFN


def src_hash(text: str) -> str:
    return hashlib.sha256(text.encode()).hexdigest()[:16]


@dataclass
class Obligation:
    oid: str                 # stable id: <file>::<qualname>::<kind>[@ordinal]
    function: str
    kind: str                # requires / assert / index / inv-init / inv-step / ensures / frame / scope / dataflow / canary / cover ...
    backend: str             # z3 | cvc5 | scope | dataflow | eval
    status: str              # discharged | failed | unknown | error
    seconds: float = 0.0
    detail: str = ""
    model: Optional[dict] = None


@dataclass
class Violation:
    prop: str
    what: str                # human summary
    key: str                 # stable key used for known-finding matching
    replay: Dict[str, Any]   # replay payload
    no_input: bool = False


@dataclass
class Report:
    prop: str
    tier: str
    t0: float = field(default_factory=time.time)
    obligations: List[Obligation] = field(default_factory=list)
    functions: Dict[str, Dict[str, Any]] = field(default_factory=dict)   # qualname -> {path, hash, level}
    violations: List[Violation] = field(default_factory=list)
    undecided: List[str] = field(default_factory=list)
    broken: List[str] = field(default_factory=list)
    bounded_evals: int = 0
    bounded_cells: int = 0
    bounded_nontrivial: set = field(default_factory=set)
    bounded_samples: List[Any] = field(default_factory=list)
    bounds: Dict[str, Any] = field(default_factory=dict)
    assumptions: List[str] = field(default_factory=list)
    trusted: List[str] = field(default_factory=list)
    notes: List[str] = field(default_factory=list)
    known_matched: Dict[str, int] = field(default_factory=dict)
    obligation_samples: List[Any] = field(default_factory=list)

    # ------------------------------------------------------------------ recording
    def add_ob(self, ob: Obligation) -> None:
        self.obligations.append(ob)

    def add_function(self, qual: str, path: str, source: str, level: str) -> None:
        self.functions[qual] = {"path": path, "sha256_16": src_hash(source), "level": level}

    def not_covered(self, fq: str, source: str, msg: str) -> None:
        """A level-P contract cannot be evaluated on the CURRENT source of `fq` (syntax outside the supported subset).  If the function is
        textually the one the contract was written for (contracts/baseline_functions.json) that is the checker's problem (undecided, exit 2);
        if the function was edited, the contract simply does not apply to the new text: the obligation is dropped, the fact is printed and
        recorded among the assumptions, and the bounded contracts of the same check still decide the property at level B."""
        base = baseline_functions().get(fq)
        if base is not None and base == src_hash(source):
            self.undecided.append(f"{fq}: {msg}")
            return
        line = f"NOT-COVERED at level P (source of {fq} differs from the text the contract was written for): {msg}"
        if line not in self.notes:
            self.notes.append(line)
            print(line[:400])
        self.assume(f"{fq}: level-P contract not applicable to the edited source in this run ({msg[:160]}); bounded contracts only")

    def assume(self, *xs: str) -> None:
        for x in xs:
            if x not in self.assumptions:
                self.assumptions.append(x)

    def trust(self, *xs: str) -> None:
        for x in xs:
            if x not in self.trusted:
                self.trusted.append(x)

    def violation(self, what: str, key: str, replay: Dict[str, Any], no_input: bool = False) -> None:
        self.violations.append(Violation(self.prop, what, key, replay, no_input))

    def bounded(self, cell: Any, nontrivial: bool, evals: int = 1) -> None:
        self.bounded_cells += 1
        self.bounded_evals += evals
        if nontrivial:
            self.bounded_nontrivial.add(json.dumps(cell, sort_keys=True, default=str))
        if len(self.bounded_samples) < 12:
            self.bounded_samples.append(cell)

    # ------------------------------------------------------------------ finishing
    def finish(self, category: str, explanation: str, checker_cmd: str) -> int:
        kf = load_known_findings()
        lines: List[str] = []
        real: List[Violation] = []
        for v in self.violations:
            m = match_known(kf, v)
            if m is not None:
                self.known_matched[m["id"]] = self.known_matched.get(m["id"], 0) + 1
            else:
                real.append(v)
        for fid, cnt in sorted(self.known_matched.items()):
            ent = next(e for e in kf["findings"] if e["id"] == fid)
            lines.append(f"KNOWN-FINDING: property={self.prop} {fid}: {ent['what']} ({cnt} case(s) this run)")
        # de-duplicate real violations by key, write one replay file per key
        seen = {}
        for v in real:
            seen.setdefault(v.key, v)
        REPLAY_DIR.mkdir(parents=True, exist_ok=True)
        for key, v in seen.items():
            fn = REPLAY_DIR / f"{self.prop}_{hashlib.sha1(key.encode()).hexdigest()[:10]}.json"
            payload = dict(v.replay)
            payload.update({"property": self.prop, "key": key, "what": v.what,
                            "no_failing_input_found": v.no_input})
            fn.write_text(json.dumps(payload, indent=1, default=str))
            tail = " no-failing-input-found" if v.no_input else ""
            lines.append(f"VIOLATION property={self.prop} replay={fn}{tail}")
            lines.append(f"  -> {v.what}")
        n_ob = len(self.obligations)
        n_dis = sum(1 for o in self.obligations if o.status == "discharged")
        by_backend: Dict[str, int] = {}
        for o in self.obligations:
            by_backend[o.backend] = by_backend.get(o.backend, 0) + 1
        solver_s = round(sum(o.seconds for o in self.obligations), 3)
        not_dis = [o for o in self.obligations if o.status != "discharged"]
        cov: Dict[str, Any] = {
            "obligations": n_ob,
            "discharged": n_dis,
            "checker_cmd": checker_cmd,
            "trusted_base": self.trusted,
            "explanation": explanation,
            "obligations_by_backend": by_backend,
            "solver_seconds": solver_s,
            "functions_under_contract": self.functions,
            "undischarged": [{"id": o.oid, "status": o.status, "detail": o.detail[:300]} for o in not_dis][:40],
            "bounded": {
                "label": "bounded (run-time-checked contracts on enumerated cells; never counted as proved)",
                "cells": self.bounded_cells,
                "clause_evaluations": self.bounded_evals,
                "bounds": self.bounds,
            },
            "evaluations": max(self.bounded_evals, n_ob, 1),
            "distinct_nontrivial": len(self.bounded_nontrivial) if self.bounded_cells else
                len({o.oid for o in self.obligations if o.kind not in ("canary", "cover")}),
            "rule": ("bounded cells: distinct cell descriptors whose pre-state is non-basis (superposed, entangled or mixed) "
                     "or whose operands are not in storage order; when no bounded cells ran: distinct non-canary proof obligations"),
            "samples": (self.bounded_samples[:8] + self.obligation_samples[:8]) or ["none"],
            "known_findings_matched": self.known_matched,
            "notes": self.notes,
        }
        ev = {
            "property_id": self.prop,
            "tier": self.tier,
            "seed": seed(),
            "level": category,
            "coverage": cov,
            "assumptions": self.assumptions,
            "wall_s": round(time.time() - self.t0, 2),
            "violations": len(seen),
        }
        EVIDENCE_DIR.mkdir(parents=True, exist_ok=True)
        (EVIDENCE_DIR / f"{self.prop}.json").write_text(json.dumps(ev, indent=1, default=str))
        for ln in lines:
            print(ln)
        code = 0
        if seen:
            code = 1
        elif self.broken:
            code = 3
        elif self.undecided or (n_ob != n_dis):
            code = 2
        print(f"[{self.prop}] tier={self.tier} obligations={n_ob} discharged={n_dis} "
              f"bounded_cells={self.bounded_cells} clause_evals={self.bounded_evals} "
              f"known={sum(self.known_matched.values())} violations={len(seen)} "
              f"undecided={len(self.undecided)} broken={len(self.broken)} wall={ev['wall_s']}s exit={code}")
        for u in self.undecided[:20]:
            print(f"  undecided: {u}")
        for b in self.broken[:20]:
            print(f"  checker-broken: {b}")
        return code


def load_known_findings() -> Dict[str, Any]:
    if KNOWN_FINDINGS.exists():
        return json.loads(KNOWN_FINDINGS.read_text())
    return {"findings": [], "fixed": []}


def match_known(kf: Dict[str, Any], v: Violation) -> Optional[Dict[str, Any]]:
    """A violation is a known finding iff property matches and every (field, value) of `match`
    equals the corresponding replay field (lists: membership)."""
    for ent in kf.get("findings", []):
        if ent.get("property") != v.prop:
            continue
        ok = True
        for fld, want in ent.get("match", {}).items():
            got = v.replay.get(fld, v.key if fld == "key" else None)
            if isinstance(want, list):
                if got not in want:
                    ok = False
            elif fld == "key_prefix":
                if not v.key.startswith(want):
                    ok = False
            elif got != want:
                ok = False
            if not ok:
                break
        if ok:
            return ent
    return None


def merge_reports(dst: Report, src: Report) -> None:
    dst.obligations.extend(src.obligations)
    dst.functions.update(src.functions)
    dst.violations.extend(src.violations)
    dst.undecided.extend(src.undecided)
    dst.broken.extend(src.broken)
    dst.bounded_evals += src.bounded_evals
    dst.bounded_cells += src.bounded_cells
    dst.bounded_nontrivial |= src.bounded_nontrivial
    for x in src.bounded_samples:
        if len(dst.bounded_samples) < 12:
            dst.bounded_samples.append(x)
    for x in src.obligation_samples:
        if len(dst.obligation_samples) < 8:
            dst.obligation_samples.append(x)
    dst.assume(*src.assumptions)
    dst.trust(*src.trusted)
    for x in src.notes:
        if x not in dst.notes:
            dst.notes.append(x)
    dst.bounds.update(src.bounds)
