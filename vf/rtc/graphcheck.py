"""C13: exhaustive enumeration of composite-envelope construction / merge histories with the graph invariants
checked after every step (run in worker processes)."""
from __future__ import annotations

import itertools
from typing import Any, Dict, List, Tuple

import numpy as np


def histories(tier: str):
    """Steps: ("ce", [items]) creates handle h<k> from items in {e0,e1,e2,c0,h<j>};  ("combine", h, [subsystems]);
    ("measure", h, [subsystem]); ("op", h, subsystem)."""
    base = ["e0", "e1", "e2", "c0"]
    out = []

    def rec(steps, nh, depth):
        out.append(list(steps))
        if depth == 0:
            return
        items = base + [f"h{k}" for k in range(nh)]
        for r in (1, 2):
            for combo in itertools.combinations(items, r):
                rec(steps + [("ce", list(combo))], nh + 1, depth - 1)
    rec([], 0, 3 if tier == "thorough" else 2)
    full = [h for h in out if h]
    if tier != "thorough":
        # plus a sample of three-step histories (every 7th)
        more = []
        rec3 = []

        def rec_b(steps, nh, depth):
            if depth == 0:
                rec3.append(list(steps))
                return
            items = base + [f"h{k}" for k in range(nh)]
            for r in (1, 2):
                for combo in itertools.combinations(items, r):
                    rec_b(steps + [("ce", list(combo))], nh + 1, depth - 1)
        rec_b([], 0, 3)
        full += rec3[::7]
    # interleave structural calls: after the first construction combine two of its subsystems; at the end measure / operate
    res = []
    for h in full:
        res.append(h)
        first = h[0][1]
        subs = []
        for it in first:
            if it.startswith("e"):
                subs += [f"{it}.f", f"{it}.p"]
            elif it.startswith("c"):
                subs.append(it)
        if len(subs) >= 2:
            res.append([h[0], ("combine", 0, subs[:2])] + h[1:])
            res.append([h[0], ("combine", 0, subs[:2])] + h[1:] + [("measure", 0, [subs[0]])])
            if len(subs) >= 3:
                res.append([h[0], ("combine", 0, [subs[2], subs[0]])] + h[1:] + [("combine", 0, subs[1:3])])
    # variant: every construction that brings in a fresh envelope is followed by combining that envelope's members
    # in the new handle, so that later merges join containers that already hold product spaces
    extra = []
    for h in full:
        seen, steps, k = set(), [], -1
        for st in h:
            steps.append(st)
            k += 1
            fresh = [it for it in st[1] if it.startswith("e") and it not in seen]
            seen |= set(st[1])
            if fresh:
                steps.append(("combine", k, [f"{fresh[0]}.p", f"{fresh[0]}.f"]))
        if len(steps) > len(h) + 1:
            extra.append(steps)
            # a reorder inside a product space that was moved by a merge (through the newest handle)
            combs = [st for st in steps if st[0] == "combine"]
            if len(combs) >= 2:
                extra.append(steps + [("reorder", len(h) - 1, list(reversed(combs[-1][2])))])
                extra.append(steps + [("reorder", len(h) - 1, list(reversed(combs[0][2])))])
            extra.append(steps + [("measure", 0, [f"{h[0][1][0]}.f"])] if h[0][1][0].startswith("e") else steps)
    return res + extra


def run_history(h: List[Tuple]) -> Dict[str, Any]:
    from . import world as W
    L = W.lib()
    L.CompositeEnvelope._containers.clear()
    L.CompositeEnvelope._instances.clear()
    w = W.World()
    envs = {}
    for i in range(3):
        e = L.Envelope()
        e.fock.dimensions = 2
        envs[f"e{i}"] = e
        w.envs.append(e)
        w.add(f"e{i}.f", e.fock)
        w.add(f"e{i}.p", e.polarization)
    c = L.CustomState(2)
    w.customs.append(c)
    w.add("c0", c)
    handles: List[Any] = []
    merged: List[set] = []            # ghost: equivalence classes of handle indices
    owner: Dict[str, int] = {}        # ghost: item -> class representative handle
    fails: List[Dict[str, str]] = []
    raised = None
    for si, st in enumerate(h):
        try:
            if st[0] == "ce":
                args = []
                cls = {len(handles)}
                for it in st[1]:
                    if it.startswith("h"):
                        k = int(it[1:])
                        args.append(handles[k])
                        cls |= next(m for m in merged if k in m)
                    else:
                        args.append(envs[it] if it.startswith("e") else c)
                        if it in owner:
                            cls |= next(m for m in merged if owner[it] in m)
                handles.append(L.CompositeEnvelope(*args))
                w.ces.append(handles[-1])
                merged = [m for m in merged if not (m & cls)] + [set().union(cls, *[m for m in merged if m & cls])]
                for it in st[1]:
                    if not it.startswith("h"):
                        owner[it] = len(handles) - 1
            elif st[0] == "combine":
                handles[st[1]].combine(*[w.objs[n] for n in st[2]])
            elif st[0] == "measure":
                handles[st[1]].measure(*[w.objs[n] for n in st[2]])
            elif st[0] == "reorder":
                hk = handles[st[1]]
                if all(any(w.objs[n] is so for so in hk.state_objs) for n in st[2]):
                    hk.reorder(*[w.objs[n] for n in st[2]])
        except Exception as ex:
            raised = f"step {si} {st}: {type(ex).__name__}: {ex}"
            fails.append({"clause": "valid-construction-history-does-not-raise", "detail": raised})
            break
        # ---- invariants after every step
        snap = W.snapshot(w)
        for prop, msg in snap.errors:
            if prop == "C13":
                fails.append({"clause": "well_formed", "detail": f"after step {si} {st}: {msg}"})
        CE = L.CompositeEnvelope
        for m in merged:
            conts = {id(CE._containers[handles[k].uid]) for k in m if handles[k].uid in CE._containers}
            if len(conts) != 1 or any(handles[k].uid not in CE._containers for k in m):
                fails.append({"clause": "merged-handles-share-one-container", "detail": f"after step {si} {st}: handles {sorted(m)} resolve to {len(conts)} containers"})
            else:
                views = {(tuple(id(e) for e in handles[k].envelopes), tuple(id(s) for s in handles[k].state_objs), tuple(id(p) for p in handles[k].states)) for k in m}
                if len(views) != 1:
                    fails.append({"clause": "merged-handles-see-the-same-contents", "detail": f"after step {si} {st}: handles {sorted(m)} disagree"})
        reps = [sorted(m)[0] for m in merged]
        cs = [id(CE._containers[handles[k].uid]) for k in reps if handles[k].uid in CE._containers]
        if len(set(cs)) != len(cs):
            fails.append({"clause": "unmerged-handles-have-different-containers", "detail": f"after step {si} {st}"})
        # every item given to a handle of class m is a member of that container; subsystem lists have no duplicates
        for m in merged:
            k = sorted(m)[0]
            if handles[k].uid not in CE._containers:
                continue
            cont = CE._containers[handles[k].uid]
            want_envs = {it for it, o in owner.items() if it.startswith("e") and any(o in mm and k in mm for mm in merged)
                         and not envs[it].measured}
            have = {n for n, e in envs.items() if any(e is x for x in cont.envelopes)}
            if not want_envs <= have:
                fails.append({"clause": "container-holds-every-envelope-given-to-its-handles", "detail": f"after step {si} {st}: missing {sorted(want_envs - have)}"})
            ids = [id(s) for s in cont.state_objs]
            if len(ids) != len(set(ids)):
                fails.append({"clause": "no-subsystem-listed-twice", "detail": f"after step {si} {st}"})
            pids = [id(p) for p in cont.states]
            if len(pids) != len(set(pids)):
                fails.append({"clause": "no-product-space-listed-twice", "detail": f"after step {si} {st}"})
        if fails:
            break
    return {"history": [list(s) for s in h], "fails": fails[:3]}
