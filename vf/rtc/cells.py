"""Cell runner of engine B: builds the world of a cell, installs the sidecar contracts, performs the
action through the real public API and returns the evaluated clauses.  Cells are JSON-able dicts, run
in a process pool (each worker imports JAX once and uses the persistent XLA cache as an optimisation)."""
from __future__ import annotations

import concurrent.futures as cf
import hashlib
import json
import os
import time
import traceback
from typing import Any, Dict, List, Optional

import numpy as np

from vf import common


def cell_id(cell: Dict[str, Any]) -> str:
    return hashlib.sha1(json.dumps(cell, sort_keys=True, default=str).encode()).hexdigest()[:12]


def _init_worker():
    os.environ.setdefault("JAX_PLATFORMS", "cpu")
    os.environ.setdefault("XLA_FLAGS", "--xla_cpu_multi_thread_eigen=false intra_op_parallelism_threads=1")
    common.use_repo()
    import jax
    jax.config.update("jax_enable_x64", True)
    try:
        cache = common.VERIF / ".cache" / "jax"
        cache.mkdir(parents=True, exist_ok=True)
        jax.config.update("jax_compilation_cache_dir", str(cache))
        jax.config.update("jax_persistent_cache_min_compile_time_secs", 0.2)
        jax.config.update("jax_persistent_cache_min_entry_size_bytes", 0)
    except Exception:
        pass


def install_table():
    from . import contracts as C
    from . import world as W
    L = W.lib()
    from photon_weave.state.base_state import BaseState
    t = [
        (L.Fock, "apply_operation", C.ApplyOperation("self")),
        (L.Polarization, "apply_operation", C.ApplyOperation("self")),
        (L.CustomState, "apply_operation", C.ApplyOperation("self")),
        (L.Envelope, "apply_operation", C.ApplyOperation("env")),
        (L.CompositeEnvelope, "apply_operation", C.ApplyOperation("ce")),
    ]
    t += C.extra_table(L, BaseState)
    return t


CELL_WALL_S = 1800      # wall-clock fallback: only ever reported as undecided (exit 2), never as a verdict


class CellTimeout(BaseException):     # BaseException: neither the library's nor the harness' `except Exception` swallows it
    def __init__(self, which="cpu", phase="library"):
        super().__init__(which)
        self.which = which
        self.phase = phase          # phase at the moment the signal arrived (the wrappers' finally blocks change it while unwinding)


def run_cell(cell: Dict[str, Any]) -> Dict[str, Any]:
    """run_cell with a watchdog: a library call that does not return within CELL_TIMEOUT_S is reported as a
    non-terminating call (clause 'call-terminates'), never left hanging."""
    import signal
    from . import harness

    def on_alarm(signum, frame):
        raise CellTimeout("wall", harness._STATE.get("phase", "library"))

    def on_prof(signum, frame):
        raise CellTimeout("cpu", harness._STATE.get("phase", "library"))
    old = oldp = None
    try:
        old = signal.signal(signal.SIGALRM, on_alarm)
        oldp = signal.signal(signal.SIGPROF, on_prof)
        signal.alarm(CELL_WALL_S)
        harness._STATE["watchdog"] = True      # the CPU-time budget is armed by the wrapper around each outermost library call
    except (ValueError, AttributeError):
        old = oldp = None
    try:
        return _run_cell(cell)
    except CellTimeout as ex:
        a = cell.get("action", {})
        phase = ex.phase
        harness.set_world(None)
        if ex.which == "cpu" and phase == "library":
            cl = {"prop": "HANG", "clause": "call-terminates", "ok": False, "method": a.get("kind", "?"),
                  "detail": f"the library call used more than {harness.LIB_CPU_S} CPU seconds without returning (non-terminating loop in the library?)"}
        else:
            cl = {"prop": "TIMEOUT", "clause": "cell-budget", "ok": False, "method": a.get("kind", "?"),
                  "detail": f"budget exhausted ({ex.which}) while in phase '{phase}': undecided, not a verdict"}
        return {"id": cell_id(cell), "cell": cell, "draws": [], "error": None, "raised": "timeout", "clauses": [cl]}
    finally:
        try:
            signal.alarm(0)
            signal.setitimer(signal.ITIMER_PROF, 0)
            harness._STATE["watchdog"] = False
            if old is not None:
                signal.signal(signal.SIGALRM, old)
            if oldp is not None:
                signal.signal(signal.SIGPROF, oldp)
        except (ValueError, AttributeError):
            pass


def _run_cell(cell: Dict[str, Any]) -> Dict[str, Any]:
    """Returns {"id", "clauses": [...], "draws": [...], "error": str|None, "raised": str|None}."""
    from . import actions, harness, world as W
    t0 = time.time()
    out: Dict[str, Any] = {"id": cell_id(cell), "clauses": [], "draws": [], "error": None, "raised": None, "cell": cell}
    try:
        L = W.lib()
        seed = int(cell.get("seed", 0))
        rng = np.random.default_rng([seed, int(out["id"][:8], 16)])
        C = L.Config()
        C.set_contraction(True)
        w, errs = W.build_world(cell["world"], rng)
        pre = W.snapshot(w)
        if pre.errors:
            out["clauses"].append({"prop": "BUILD", "clause": "constructed-world-is-well-formed", "ok": False,
                                   "detail": "; ".join(f"{p}:{m}" for p, m in pre.errors[:4]), "method": "builder"})
            if not cell.get("allow_ill_formed"):
                return out
        C.set_contraction(bool(cell.get("contraction", True)))
        C.set_seed(seed)
        harness.set_world(w)
        with harness.Installed(install_table()):
            with harness.Recorder(cell.get("forced")) as rec:
                try:
                    extra = actions.perform(cell["action"], w, rng, rec)
                except Exception as ex:
                    out["raised"] = f"{type(ex).__name__}: {ex}"
                    extra = None
        out["clauses"] += [c.as_dict() for c in harness.log()]
        if extra:
            out["clauses"] += extra
        out["draws"] = [{"p": None if d["p"] is None else [round(float(x), 12) for x in d["p"]], "chosen": d["chosen"], "key": d["key"]}
                        for d in rec.draws]
        harness.set_world(None)
        if cell.get("twin_contraction") and out["raised"] is None:
            out["clauses"] += _contraction_twin(cell, w, rec, L, W, actions, harness, seed, out["id"])
    except Exception:
        out["error"] = traceback.format_exc(limit=6)
    out["wall"] = round(time.time() - t0, 3)
    return out


def _contraction_twin(cell, w1, rec1, L, W, actions, harness, seed, cid):
    """C08 neutrality: the same cell is executed again with the contraction setting flipped (same amplitudes, same forced
    outcomes); the joint physical state and every recorded probability vector must coincide."""
    rng = np.random.default_rng([seed, int(cid[:8], 16)])
    C = L.Config()
    C.set_contraction(True)
    w2, _ = W.build_world(cell["world"], rng)
    C.set_contraction(not bool(cell.get("contraction", True)))
    C.set_seed(seed)
    script = [d["chosen"] for d in rec1.draws]
    try:
        with harness.Recorder(script) as rec2:
            actions.perform(cell["action"], w2, rng, rec2)
    except Exception as ex:
        return [{"prop": "C08", "clause": "same-program-runs-under-both-contraction-settings", "ok": False,
                 "detail": f"with contraction={not bool(cell.get('contraction', True))}: {type(ex).__name__}: {ex}", "method": "twin"}]
    finally:
        C.set_contraction(True)
    s1, s2 = W.snapshot(w1, check=False), W.snapshot(w2, check=False)
    out = []
    try:
        r1, d1 = W.joint_rho(s1, list(s1.live))
        r2, d2 = W.joint_rho(s2, list(s2.live))
        ok = list(s1.live) == list(s2.live)
        detail = "" if ok else f"live subsystems differ: {s1.live} vs {s2.live}"
        if ok and d1 != d2:
            common_d = [max(a, b) for a, b in zip(d1, d2)]
            r1, r2 = W.pad_rho(r1, d1, common_d), W.pad_rho(r2, d2, common_d)
        if ok:
            dev = float(np.max(np.abs(r1 - r2))) if r1 is not None and r2 is not None and r1.shape == r2.shape else float("inf")
            ok = dev <= 1e-5
            detail = "" if ok else f"joint states differ by {dev:.3g}"
        out.append({"prop": "C08", "clause": "joint-state-is-the-same-with-contraction-on-and-off", "ok": bool(ok), "detail": detail, "method": "twin"})
    except Exception as ex:
        out.append({"prop": "C08", "clause": "joint-state-is-the-same-with-contraction-on-and-off", "ok": False, "detail": f"unreadable: {ex}", "method": "twin"})
    p1 = [d["p"] for d in rec1.draws if d["p"] is not None]
    p2 = [d["p"] for d in rec2.draws if d["p"] is not None]
    # certain re-draws (p is a delta) may differ in number between representations; compare the non-trivial distributions
    nt = lambda ps: [p for p in ps if float(np.max(p)) < 1 - 1e-9]
    a, b = nt(p1), nt(p2)
    ok = len(a) == len(b) and all(len(x) == len(y) and float(np.max(np.abs(np.array(x) - np.array(y)))) <= 1e-6 for x, y in zip(a, b))
    out.append({"prop": "C08", "clause": "measurement-distributions-are-the-same-with-contraction-on-and-off", "ok": bool(ok),
                "detail": "" if ok else f"{[np.round(x, 5).tolist() for x in a][:3]} vs {[np.round(x, 5).tolist() for x in b][:3]}", "method": "twin"})
    return out


def run_cells(cells: List[Dict[str, Any]], workers: Optional[int] = None, chunk: int = 4) -> List[Dict[str, Any]]:
    if os.environ.get("VERIF_P_ONLY") == "1":      # development aid: level-P obligations only (never used by a registered command)
        return []
    workers = workers or min(16, os.cpu_count() or 4)
    if not cells:
        return []
    if workers == 1:
        _init_worker()
        return [run_cell(c) for c in cells]
    import multiprocessing as mp
    # spawn: the parent may already have initialised JAX (forking a process with live XLA threads is not safe)
    with cf.ProcessPoolExecutor(max_workers=workers, initializer=_init_worker, mp_context=mp.get_context("spawn")) as ex:
        return list(ex.map(run_cell, cells, chunksize=chunk))
