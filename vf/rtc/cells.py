"""Cell runner of engine B: builds the world of a cell, installs the sidecar contracts, performs the
action through the real public API and returns the evaluated clauses.  Cells are JSON-able dicts, run
in a process pool (each worker imports JAX once and uses the persistent XLA cache as an optimisation)."""
from __future__ import annotations

import concurrent.futures as cf
import hashlib
import json
import os
import time
import traceback
from typing import Any, Dict, List, Optional

import numpy as np

from vf import common


def cell_id(cell: Dict[str, Any]) -> str:
    return hashlib.sha1(json.dumps(cell, sort_keys=True, default=str).encode()).hexdigest()[:12]


def _init_worker():
    os.environ.setdefault("JAX_PLATFORMS", "cpu")
    os.environ.setdefault("XLA_FLAGS", "--xla_cpu_multi_thread_eigen=false intra_op_parallelism_threads=1")
    common.use_repo()
    import jax
    jax.config.update("jax_enable_x64", True)
    try:
        cache = common.VERIF / ".cache" / "jax"
        cache.mkdir(parents=True, exist_ok=True)
        jax.config.update("jax_compilation_cache_dir", str(cache))
        jax.config.update("jax_persistent_cache_min_compile_time_secs", 0.2)
        jax.config.update("jax_persistent_cache_min_entry_size_bytes", 0)
    except Exception:
        pass


def install_table():
    from . import contracts as C
    from . import world as W
    L = W.lib()
    from photon_weave.state.base_state import BaseState
    t = [
        (L.Fock, "apply_operation", C.ApplyOperation("self")),
        (L.Polarization, "apply_operation", C.ApplyOperation("self")),
        (L.CustomState, "apply_operation", C.ApplyOperation("self")),
        (L.Envelope, "apply_operation", C.ApplyOperation("env")),
        (L.CompositeEnvelope, "apply_operation", C.ApplyOperation("ce")),
    ]
    t += C.extra_table(L, BaseState)
    return t


def run_cell(cell: Dict[str, Any]) -> Dict[str, Any]:
    """Returns {"id", "clauses": [...], "draws": [...], "error": str|None, "raised": str|None}."""
    from . import actions, harness, world as W
    t0 = time.time()
    out: Dict[str, Any] = {"id": cell_id(cell), "clauses": [], "draws": [], "error": None, "raised": None, "cell": cell}
    try:
        L = W.lib()
        seed = int(cell.get("seed", 0))
        rng = np.random.default_rng([seed, int(out["id"][:8], 16)])
        C = L.Config()
        C.set_contraction(True)
        w, errs = W.build_world(cell["world"], rng)
        pre = W.snapshot(w)
        if pre.errors:
            out["clauses"].append({"prop": "BUILD", "clause": "constructed-world-is-well-formed", "ok": False,
                                   "detail": "; ".join(f"{p}:{m}" for p, m in pre.errors[:4]), "method": "builder"})
            if not cell.get("allow_ill_formed"):
                return out
        C.set_contraction(bool(cell.get("contraction", True)))
        C.set_seed(seed)
        harness.set_world(w)
        with harness.Installed(install_table()):
            with harness.Recorder(cell.get("forced")) as rec:
                try:
                    extra = actions.perform(cell["action"], w, rng, rec)
                except Exception as ex:
                    out["raised"] = f"{type(ex).__name__}: {ex}"
                    extra = None
        out["clauses"] += [c.as_dict() for c in harness.log()]
        if extra:
            out["clauses"] += extra
        out["draws"] = [{"p": None if d["p"] is None else [round(float(x), 12) for x in d["p"]], "chosen": d["chosen"], "key": d["key"]}
                        for d in rec.draws]
        harness.set_world(None)
    except Exception:
        out["error"] = traceback.format_exc(limit=6)
    out["wall"] = round(time.time() - t0, 3)
    return out


def run_cells(cells: List[Dict[str, Any]], workers: Optional[int] = None, chunk: int = 4) -> List[Dict[str, Any]]:
    workers = workers or min(16, os.cpu_count() or 4)
    if not cells:
        return []
    if workers == 1:
        _init_worker()
        return [run_cell(c) for c in cells]
    import multiprocessing as mp
    # spawn: the parent may already have initialised JAX (forking a process with live XLA threads is not safe)
    with cf.ProcessPoolExecutor(max_workers=workers, initializer=_init_worker, mp_context=mp.get_context("spawn")) as ex:
        return list(ex.map(run_cell, cells, chunksize=chunk))
