"""Cell generators: partial trace, structural calls, measurement, POVM, Kraus, resize."""
from __future__ import annotations

import itertools
from typing import Any, Dict, List

from . import layouts as LY

ALL5 = ["e0.f", "e0.p", "e1.f", "e1.p", "c0"]


def _cls_opts(ltag, quick, extra=()):
    if ltag == "M":
        return ["mixed"] if quick else ["mixed", "pure", "degenerate"]
    if ltag == "L":
        return ["basis"]
    return (["pure"] if quick else ["pure", "neg", "product"]) + list(extra)


def _cell(spec, tag, ltag, cls, contraction, seed, action, **kw):
    c = {"world": spec, "layout": tag, "levels": ltag, "cls": cls, "contraction": contraction, "seed": seed, "action": action}
    c.update(kw)
    return c


def trace_out_cells(tier: str, seed: int):
    cells = []
    quick = tier == "quick"
    n = 0
    keeps = []
    for k in (1, 2, 3):
        for combo in itertools.permutations(ALL5, k):
            keeps.append(list(combo))
    for si, (tag, blocks) in enumerate(LY.STRUCTS):
        for ltag, levels, dl in LY.level_settings(blocks, [], tier):
            for ki, keep in enumerate(keeps):
                n += 1
                if quick and n % 11 != 0:
                    continue
                if not quick and len(keep) == 3 and n % 3 != 0:
                    continue
                for cls in _cls_opts(ltag, quick):
                    spec = LY.make_spec(blocks, levels, {}, default_level=dl, default_cls=cls, bystander=(n % 5 == 0))
                    entries = ["ce"]
                    if len(keep) == 1:
                        entries.append("self")
                    if all(k.startswith(keep[0][:2]) and "." in k for k in keep) and len(keep) <= 2:
                        entries.append("env")
                    for entry in entries:
                        cells.append(_cell(spec, tag, ltag, cls, True, seed,
                                           {"kind": "trace_out", "entry": entry, "targets": [LY.rename(spec, k) for k in keep]},
                                           reordered=True, ntargets=len(keep)))
    # standalone envelope (no composite)
    for order, tag in ((["e0.f", "e0.p"], "envalone01"), (["e0.p", "e0.f"], "envalone10"), (None, "alone")):
        for lv, cls in (("V", "pure"), ("M", "mixed"), ("L", "basis")):
            if order is None:
                spec = LY.make_spec([], {}, {}, envs=("e0",), customs=(), composite=False, default_level=lv, default_cls=cls)
            elif lv == "L":
                continue
            else:
                spec = LY.make_spec([("env", order)], {order[0]: lv}, {order[0]: cls}, envs=("e0",), customs=(), composite=False)
            for keep in (["e0.f"], ["e0.p"], ["e0.f", "e0.p"], ["e0.p", "e0.f"]):
                for entry in (["env", "self"] if len(keep) == 1 else ["env"]):
                    cells.append(_cell(spec, tag, lv, cls, True, seed,
                                       {"kind": "trace_out", "entry": entry, "targets": [LY.rename(spec, k) for k in keep]}, reordered=True))
    return cells


def structural_cells(tier: str, seed: int):
    cells = []
    quick = tier == "quick"
    n = 0
    for si, (tag, blocks) in enumerate(LY.STRUCTS):
        for ltag, levels, dl in LY.level_settings(blocks, [], tier):
            for cls in _cls_opts(ltag, quick, extra=(["nearpure"] if ltag == "M" else [])) + (["nearpure", "basis"] if ltag == "M" else ["basis"] if ltag == "V" else []):
                actions = []
                for k in (1, 2, 3, 4):
                    for combo in itertools.permutations(ALL5, k):
                        n += 1
                        if n % (37 if quick else 7) == 0:
                            actions.append(("combine", "ce", list(combo)))
                        if n % (41 if quick else 9) == 0:
                            actions.append(("reorder", "ce", list(combo)))
                for t in ALL5:
                    actions.append(("expand", "self", [t]))
                    actions.append(("contract", "self", [t]))
                    actions.append(("expand", "ce", [t]))
                for e in ("e0", "e1"):
                    actions.append(("combine", "env", [f"{e}.f"]))
                    actions.append(("expand", "env", [f"{e}.f"]))
                    actions.append(("reorder", "env", [f"{e}.p", f"{e}.f"]))
                    actions.append(("reorder", "env", [f"{e}.f"]))
                for ai, (what, entry, tg) in enumerate(actions):
                    if quick and (ai + si) % 3 != 0:
                        continue
                    for contraction in (True, False) if what == "contract" else (True,):
                        spec = LY.make_spec(blocks, levels, {}, default_level=dl, default_cls=cls if ltag != "L" else "basis", bystander=(ai % 6 == 0))
                        cells.append(_cell(spec, tag, ltag, cls, contraction, seed,
                                           {"kind": "structural", "what": what, "entry": entry, "targets": [LY.rename(spec, t) for t in tg]},
                                           variant=what, reordered=True))
    # envelope-level contract needs a combined matrix-level envelope
    for order, tag in ((["e0.f", "e0.p"], "envalone01"), (["e0.p", "e0.f"], "envalone10")):
        for cls in ("mixed", "pure", "nearpure", "degenerate", "basis"):
            spec = LY.make_spec([("env", order)], {order[0]: "M"}, {order[0]: cls}, envs=("e0",), customs=(), composite=False)
            for what in ("contract", "expand"):
                cells.append(_cell(spec, tag, "M", cls, True, seed, {"kind": "structural", "what": what, "entry": "env", "targets": ["e0.f"]}, variant=what))
        for cls in ("pure", "neg", "basis"):
            spec = LY.make_spec([("env", order)], {order[0]: "V"}, {order[0]: cls}, envs=("e0",), customs=(), composite=False)
            for what, tg in (("expand", ["e0.f"]), ("reorder", ["e0.p", "e0.f"]), ("reorder", ["e0.f", "e0.p"]), ("reorder", ["e0.p"])):
                cells.append(_cell(spec, tag, "V", cls, True, seed, {"kind": "structural", "what": what, "entry": "env", "targets": tg}, variant=what))
    # standalone subsystems: expand / contract at every level and state class (C08)
    for lv, clss in (("L", ["basis"]), ("V", ["pure", "neg", "basis"]), ("M", ["mixed", "pure", "nearpure", "degenerate", "basis"])):
        for cls in clss:
            for tgt, envs, customs in (("e0.f", ("e0",), ()), ("e0.p", ("e0",), ()), ("c0", (), ("c0",))):
                spec = LY.make_spec([], {}, {}, envs=envs, customs=customs, composite=False, default_level=lv, default_cls=cls)
                for what in ("expand", "contract"):
                    for contraction in (True, False):
                        cells.append(_cell(spec, "alone", lv, cls, contraction, seed,
                                           {"kind": "structural", "what": what, "entry": "self", "targets": [LY.rename(spec, tgt)]}, variant=what))
    return cells


MEASURE_FLAGS = [{}, {"separate_measurement": True}, {"destructive": False}, {"separate_measurement": True, "destructive": False}]


def measure_cells(tier: str, seed: int):
    """C04 / C05 / C18: every entry point x layout x level x flags; every outcome branch is explored by
    the caller (run.explore_outcomes)."""
    cells = []
    quick = tier == "quick"
    n = 0
    plans = []    # (entry, targets, noargs)
    for t in ALL5:
        plans.append(("self", [t], False))
        plans.append(("ce", [t], False))
    for combo in (["e0.f", "e1.p"], ["e1.p", "e0.p"], ["c0", "e0.f"], ["e0.f", "e0.p"], ["e0.p", "e1.f", "c0"], ["e1.f", "e0.f"]):
        plans.append(("ce", combo, False))
    for e in ("e0", "e1"):
        plans.append(("env", [f"{e}.f"], False))
        plans.append(("env", [f"{e}.p"], False))
        plans.append(("env", [f"{e}.f", f"{e}.p"], False))
        plans.append(("env", [f"{e}.f"], True))
    for si, (tag, blocks) in enumerate(LY.STRUCTS):
        for ltag, levels, dl in LY.level_settings(blocks, [], tier):
            for pi, (entry, tg, noargs) in enumerate(plans):
                for fi, flags in enumerate(MEASURE_FLAGS):
                    n += 1
                    if quick and n % 5 != 0:
                        continue
                    for cls in _cls_opts(ltag, quick, extra=(["neg"] if quick and ltag == "V" and n % 2 else [])):
                        spec = LY.make_spec(blocks, levels, {}, default_level=dl, default_cls=cls, bystander=(n % 7 == 0),
                                            fock_dims={"e0": 2, "e1": 3})
                        a = {"kind": "measure", "entry": entry, "targets": [LY.rename(spec, t) for t in tg], "flags": flags}
                        if noargs:
                            a["noargs"] = True
                            a["env"] = int(tg[0][1])
                            a["targets"] = [LY.rename(spec, tg[0])]
                        cells.append(_cell(spec, tag, ltag, cls, bool(n % 2), seed, a,
                                           flags=",".join(sorted(k[:3] for k, v in flags.items() if v is not None and (v if k.startswith("sep") else not v))) or "default",
                                           reordered=True))
    # standalone envelopes and subsystems
    for order, tag in ((["e0.f", "e0.p"], "envalone01"), (["e0.p", "e0.f"], "envalone10"), (None, "alone")):
        for lv, clss in (("V", ["pure", "neg"]), ("M", ["mixed", "pure"]), ("L", ["basis"])):
            for cls in clss:
                if order is None:
                    spec = LY.make_spec([], {}, {}, envs=("e0",), customs=("c0",), composite=False, default_level=lv, default_cls=cls,
                                        fock_dims={"e0": 3})
                elif lv == "L":
                    continue
                else:
                    spec = LY.make_spec([("env", order)], {order[0]: lv}, {order[0]: cls}, envs=("e0",), customs=(), composite=False,
                                        fock_dims={"e0": 3})
                plans2 = [("self", ["e0.f"], False), ("self", ["e0.p"], False), ("env", ["e0.f"], False), ("env", ["e0.p"], False),
                          ("env", ["e0.f", "e0.p"], False), ("env", ["e0.f"], True)]
                if order is None:
                    plans2.append(("self", ["c0"], False))
                for entry, tg, noargs in plans2:
                    for flags in MEASURE_FLAGS:
                        a = {"kind": "measure", "entry": entry, "targets": [LY.rename(spec, t) for t in tg], "flags": flags}
                        if noargs:
                            a["noargs"] = True
                            a["env"] = 0
                        cells.append(_cell(spec, tag, lv, cls, True, seed, a,
                                           flags=",".join(sorted(k[:3] for k, v in flags.items() if (v if k.startswith("sep") else not v))) or "default"))
    return cells
