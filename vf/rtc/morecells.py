"""Cell generators: partial trace, structural calls, measurement, POVM, Kraus, resize."""
from __future__ import annotations

import itertools
from typing import Any, Dict, List

from . import layouts as LY

ALL5 = ["e0.f", "e0.p", "e1.f", "e1.p", "c0"]


def _cls_opts(ltag, quick, extra=()):
    if ltag == "M":
        return ["mixed"] if quick else ["mixed", "pure", "degenerate", "classical"]
    if ltag == "L":
        return ["basis"]
    return (["pure"] if quick else ["pure", "neg", "product", "ghz"]) + list(extra)


def _cell(spec, tag, ltag, cls, contraction, seed, action, **kw):
    c = {"world": spec, "layout": tag, "levels": ltag, "cls": cls, "contraction": contraction, "seed": seed, "action": action}
    c.update(kw)
    return c


def trace_out_cells(tier: str, seed: int):
    cells = []
    quick = tier == "quick"
    n = 0
    keeps = []
    for k in (1, 2, 3):
        for combo in itertools.permutations(ALL5, k):
            keeps.append(list(combo))
    for si, (tag, blocks) in enumerate(LY.STRUCTS):
        for ltag, levels, dl in LY.level_settings(blocks, [], tier):
            for ki, keep in enumerate(keeps):
                n += 1
                if quick and n % 11 != 0:
                    continue
                if not quick and len(keep) == 3 and n % 3 != 0:
                    continue
                for cls in _cls_opts(ltag, quick):
                    spec = LY.make_spec(blocks, levels, {}, default_level=dl, default_cls=cls, bystander=(n % 5 == 0))
                    entries = ["ce"]
                    if len(keep) == 1:
                        entries.append("self")
                    if all(k.startswith(keep[0][:2]) and "." in k for k in keep) and len(keep) <= 2:
                        entries.append("env")
                    for entry in entries:
                        cells.append(_cell(spec, tag, ltag, cls, True, seed,
                                           {"kind": "trace_out", "entry": entry, "targets": [LY.rename(spec, k) for k in keep]},
                                           reordered=True, ntargets=len(keep)))
    # standalone envelope (no composite)
    for order, tag in ((["e0.f", "e0.p"], "envalone01"), (["e0.p", "e0.f"], "envalone10"), (None, "alone")):
        for lv, cls in (("V", "pure"), ("M", "mixed"), ("L", "basis")):
            if order is None:
                spec = LY.make_spec([], {}, {}, envs=("e0",), customs=(), composite=False, default_level=lv, default_cls=cls)
            elif lv == "L":
                continue
            else:
                spec = LY.make_spec([("env", order)], {order[0]: lv}, {order[0]: cls}, envs=("e0",), customs=(), composite=False)
            for keep in (["e0.f"], ["e0.p"], ["e0.f", "e0.p"], ["e0.p", "e0.f"]):
                for entry in (["env", "self"] if len(keep) == 1 else ["env"]):
                    cells.append(_cell(spec, tag, lv, cls, True, seed,
                                       {"kind": "trace_out", "entry": entry, "targets": [LY.rename(spec, k) for k in keep]}, reordered=True))
    return cells


def structural_cells(tier: str, seed: int):
    cells = []
    quick = tier == "quick"
    n = 0
    for si, (tag, blocks) in enumerate(LY.STRUCTS):
        for ltag, levels, dl in LY.level_settings(blocks, [], tier):
            for cls in _cls_opts(ltag, quick, extra=(["nearpure"] if ltag == "M" else [])) + (["nearpure", "basis", "nearbasis"] if ltag == "M" else ["basis", "nearbasis"] if ltag == "V" else []):
                actions = []
                for k in (1, 2, 3, 4):
                    for combo in itertools.permutations(ALL5, k):
                        n += 1
                        if n % (37 if quick else 7) == 0:
                            actions.append(("combine", "ce", list(combo)))
                        if n % (41 if quick else 9) == 0:
                            actions.append(("reorder", "ce", list(combo)))
                for t in ALL5:
                    actions.append(("expand", "self", [t]))
                    actions.append(("contract", "self", [t]))
                    actions.append(("expand", "ce", [t]))
                for e in ("e0", "e1"):
                    actions.append(("combine", "env", [f"{e}.f"]))
                    actions.append(("expand", "env", [f"{e}.f"]))
                    actions.append(("reorder", "env", [f"{e}.p", f"{e}.f"]))
                    actions.append(("reorder", "env", [f"{e}.f"]))
                for ai, (what, entry, tg) in enumerate(actions):
                    if quick and (ai + si) % 3 != 0:
                        continue
                    for contraction in (True, False) if what == "contract" else (True,):
                        spec = LY.make_spec(blocks, levels, {}, default_level=dl, default_cls=cls if ltag != "L" else "basis", bystander=(ai % 6 == 0))
                        cells.append(_cell(spec, tag, ltag, cls, contraction, seed,
                                           {"kind": "structural", "what": what, "entry": entry, "targets": [LY.rename(spec, t) for t in tg]},
                                           variant=what, reordered=True))
    # stale level cache (reachable after combine -> absorbed by a composite product space -> non-destructive measurement)
    for stale in ("V", "M"):
        for lv, cls in (("L", "basis"), ("V", "pure"), ("M", "mixed")):
            for composite in (True,):     # a stand-alone envelope resets its cache in Envelope.measure: the stale cache is reachable only inside a composite envelope
                spec = LY.make_spec([], {}, {}, envs=("e0", "e1") if composite else ("e0",), customs=("c0",) if composite else (), composite=composite,
                                    default_level=lv, default_cls=cls)
                spec["stale_level_cache"] = stale
                for what, entry, tg in (("combine", "env", ["e0.f"]), ("expand", "env", ["e0.f"]), ("reorder", "env", ["e0.p", "e0.f"])):
                    cells.append(_cell(spec, "own+stale-cache" if composite else "alone+stale-cache", lv, cls, True, seed,
                                       {"kind": "structural", "what": what, "entry": entry, "targets": [LY.rename(spec, t) for t in tg]}, variant=what + "-stale" + stale))
                if composite:
                    for tg in (["e0.f", "e1.p"], ["e0.p", "e0.f", "c0"]):
                        cells.append(_cell(spec, "own+stale-cache", lv, cls, True, seed,
                                           {"kind": "structural", "what": "combine", "entry": "ce", "targets": [LY.rename(spec, t) for t in tg]}, variant="cecombine-stale" + stale))
    # envelope-level contract needs a combined matrix-level envelope
    for order, tag in ((["e0.f", "e0.p"], "envalone01"), (["e0.p", "e0.f"], "envalone10")):
        for cls in ("mixed", "pure", "nearpure", "degenerate", "basis"):
            spec = LY.make_spec([("env", order)], {order[0]: "M"}, {order[0]: cls}, envs=("e0",), customs=(), composite=False)
            for what in ("contract", "expand"):
                cells.append(_cell(spec, tag, "M", cls, True, seed, {"kind": "structural", "what": what, "entry": "env", "targets": ["e0.f"]}, variant=what))
        for cls in ("pure", "neg", "basis"):
            spec = LY.make_spec([("env", order)], {order[0]: "V"}, {order[0]: cls}, envs=("e0",), customs=(), composite=False)
            for what, tg in (("expand", ["e0.f"]), ("reorder", ["e0.p", "e0.f"]), ("reorder", ["e0.f", "e0.p"]), ("reorder", ["e0.p"])):
                cells.append(_cell(spec, tag, "V", cls, True, seed, {"kind": "structural", "what": what, "entry": "env", "targets": tg}, variant=what))
    # standalone subsystems: expand / contract at every level and state class (C08)
    for lv, clss in (("L", ["basis"]), ("V", ["pure", "neg", "basis", "nearbasis"]), ("M", ["mixed", "pure", "nearpure", "degenerate", "basis", "nearbasis"])):
        for cls in clss:
            for tgt, envs, customs in (("e0.f", ("e0",), ()), ("e0.p", ("e0",), ()), ("c0", (), ("c0",))):
                spec = LY.make_spec([], {}, {}, envs=envs, customs=customs, composite=False, default_level=lv, default_cls=cls)
                for what in ("expand", "contract"):
                    for contraction in (True, False):
                        cells.append(_cell(spec, "alone", lv, cls, contraction, seed,
                                           {"kind": "structural", "what": what, "entry": "self", "targets": [LY.rename(spec, tgt)]}, variant=what))
    return cells


MEASURE_FLAGS = [{}, {"separate_measurement": True}, {"destructive": False}, {"separate_measurement": True, "destructive": False}]


def measure_cells(tier: str, seed: int):
    """C04 / C05 / C18: every entry point x layout x level x flags; every outcome branch is explored by
    the caller (run.explore_outcomes)."""
    cells = []
    quick = tier == "quick"
    n = 0
    plans = []    # (entry, targets, noargs)
    for t in ALL5:
        plans.append(("self", [t], False))
        plans.append(("ce", [t], False))
    for combo in (["e0.f", "e1.p"], ["e1.p", "e0.p"], ["c0", "e0.f"], ["e0.f", "e0.p"], ["e0.p", "e1.f", "c0"], ["e1.f", "e0.f"]):
        plans.append(("ce", combo, False))
    for e in ("e0", "e1"):
        plans.append(("env", [f"{e}.f"], False))
        plans.append(("env", [f"{e}.p"], False))
        plans.append(("env", [f"{e}.f", f"{e}.p"], False))
        plans.append(("env", [f"{e}.f"], True))
    for si, (tag, blocks) in enumerate(LY.STRUCTS):
        for ltag, levels, dl in LY.level_settings(blocks, [], tier):
            for pi, (entry, tg, noargs) in enumerate(plans):
                for fi, flags in enumerate(MEASURE_FLAGS):
                    n += 1
                    if quick and n % 9 != 0:
                        continue
                    for cls in _cls_opts(ltag, quick, extra=(["neg"] if quick and ltag == "V" and n % 2 else [])):
                        spec = LY.make_spec(blocks, levels, {}, default_level=dl, default_cls=cls, bystander=(n % 7 == 0),
                                            fock_dims={"e0": 2, "e1": 3})
                        a = {"kind": "measure", "entry": entry, "targets": [LY.rename(spec, t) for t in tg], "flags": flags}
                        if noargs:
                            a["noargs"] = True
                            a["env"] = int(tg[0][1])
                            a["targets"] = [LY.rename(spec, tg[0])]
                        cells.append(_cell(spec, tag, ltag, cls, bool(n % 2), seed, a,
                                           flags=",".join(sorted(k[:3] for k, v in flags.items() if v is not None and (v if k.startswith("sep") else not v))) or "default",
                                           reordered=True))
    # standalone envelopes and subsystems
    for order, tag in ((["e0.f", "e0.p"], "envalone01"), (["e0.p", "e0.f"], "envalone10"), (None, "alone")):
        for lv, clss in (("V", ["pure", "neg"]), ("M", ["mixed", "pure"]), ("L", ["basis"])):
            for cls in clss:
                if order is None:
                    spec = LY.make_spec([], {}, {}, envs=("e0",), customs=("c0",), composite=False, default_level=lv, default_cls=cls,
                                        fock_dims={"e0": 3})
                elif lv == "L":
                    continue
                else:
                    spec = LY.make_spec([("env", order)], {order[0]: lv}, {order[0]: cls}, envs=("e0",), customs=(), composite=False,
                                        fock_dims={"e0": 3})
                plans2 = [("self", ["e0.f"], False), ("self", ["e0.p"], False), ("env", ["e0.f"], False), ("env", ["e0.p"], False),
                          ("env", ["e0.f", "e0.p"], False), ("env", ["e0.f"], True)]
                if order is None:
                    plans2.append(("self", ["c0"], False))
                for entry, tg, noargs in plans2:
                    for flags in MEASURE_FLAGS:
                        a = {"kind": "measure", "entry": entry, "targets": [LY.rename(spec, t) for t in tg], "flags": flags}
                        if noargs:
                            a["noargs"] = True
                            a["env"] = 0
                        cells.append(_cell(spec, tag, lv, cls, True, seed, a,
                                           flags=",".join(sorted(k[:3] for k, v in flags.items() if (v if k.startswith("sep") else not v))) or "default"))
    return cells


def _flagtag(fl):
    return ",".join(f"{k[:4]}={int(bool(v))}" for k, v in sorted(fl.items())) or "default"


def povm_cells(tier: str, seed: int):
    cells = []
    quick = tier == "quick"
    n = 0
    plans = []
    for t in ("e0.f", "e0.p", "c0", "e1.p"):
        plans.append(("self", [t]))
        plans.append(("ce", [t]))
    for t in ("e0.f", "e0.p"):
        plans.append(("env", [t]))
    plans += [("env", ["e0.f", "e0.p"]), ("env", ["e0.p", "e0.f"]), ("ce", ["e0.p", "e1.p"]), ("ce", ["e1.p", "e0.f"]),
              ("ce", ["c0", "e0.p"]), ("ce", ["e0.f", "e0.p"]), ("ce", ["e1.p", "c0", "e0.p"])]
    opsets = [{"n": 2, "seed": 3, "projective": False}, {"n": 3, "seed": 4, "projective": False}, {"n": 2, "seed": 5, "projective": True}]
    flagsets = [{}, {"destructive": False}, {"destructive": True, "partial": True}, {"destructive": False, "partial": True}]
    for si, (tag, blocks) in enumerate(LY.STRUCTS):
        for ltag, levels, dl in LY.level_settings(blocks, [], tier):
            for pi, (entry, tg) in enumerate(plans):
                for oi, ops in enumerate(opsets):
                    for fi, fl in enumerate(flagsets):
                        if "partial" in fl and entry != "self":
                            continue
                        n += 1
                        if quick and n % 13 != 0:
                            continue
                        if not quick and n % 2 != 0:
                            continue
                        for cls in _cls_opts(ltag, True):
                            spec = LY.make_spec(blocks, levels, {}, default_level=dl, default_cls=cls, bystander=(n % 6 == 0),
                                                fock_dims={"e0": 2, "e1": 3})
                            cells.append(_cell(spec, tag, ltag, cls, bool(n % 2), seed,
                                               {"kind": "povm", "entry": entry, "targets": [LY.rename(spec, t) for t in tg], "ops": ops, "flags": fl},
                                               flags=_flagtag(fl), variant="projective" if ops["projective"] else f"general{ops['n']}", reordered=True,
                                               ntargets=len(tg), target_store="+".join(sorted({LY.block_of(blocks, t)[0] for t in tg}))))
    for order, tag in ((["e0.f", "e0.p"], "envalone01"), (["e0.p", "e0.f"], "envalone10"), (None, "alone")):
        for lv, clss in (("V", ["pure"]), ("M", ["mixed"]), ("L", ["basis"])):
            for cls in clss:
                if order is None:
                    spec = LY.make_spec([], {}, {}, envs=("e0",), customs=("c0",), composite=False, default_level=lv, default_cls=cls, fock_dims={"e0": 3})
                elif lv == "L":
                    continue
                else:
                    spec = LY.make_spec([("env", order)], {order[0]: lv}, {order[0]: cls}, envs=("e0",), customs=(), composite=False, fock_dims={"e0": 3})
                pl = [("self", ["e0.f"]), ("self", ["e0.p"]), ("env", ["e0.f"]), ("env", ["e0.p"]), ("env", ["e0.f", "e0.p"]), ("env", ["e0.p", "e0.f"])]
                if order is None:
                    pl.append(("self", ["c0"]))
                for entry, tg in pl:
                    for ops in opsets[:2] if quick else opsets:
                        for fl in flagsets:
                            if "partial" in fl and entry != "self":
                                continue
                            cells.append(_cell(spec, tag, lv, cls, True, seed,
                                               {"kind": "povm", "entry": entry, "targets": [LY.rename(spec, t) for t in tg], "ops": ops, "flags": fl},
                                               flags=_flagtag(fl), variant="projective" if ops["projective"] else f"general{ops['n']}", ntargets=len(tg),
                                               target_store="own" if order is None else "env"))
    return cells


def kraus_cells(tier: str, seed: int):
    cells = []
    quick = tier == "quick"
    n = 0
    plans = []
    for t in ("e0.f", "e0.p", "c0", "e1.p"):
        plans.append(("self", [t]))
        plans.append(("ce", [t]))
    for t in ("e0.f", "e0.p"):
        plans.append(("env", [t]))
    plans += [("env", ["e0.f", "e0.p"]), ("env", ["e0.p", "e0.f"]), ("ce", ["e0.p", "e1.p"]), ("ce", ["e1.p", "e0.f"]),
              ("ce", ["c0", "e0.p"]), ("ce", ["e0.f", "e0.p"]), ("ce", ["e1.p", "c0", "e0.p"]), ("ce", ["e1.f", "e0.f"])]
    chans = ["random2", "random3", "dephasing", "unitary", "reset", "amplitude_damping", "random4"]
    for si, (tag, blocks) in enumerate(LY.STRUCTS):
        for ltag, levels, dl in LY.level_settings(blocks, [], tier):
            for pi, (entry, tg) in enumerate(plans):
                for ci, ch in enumerate(chans):
                    n += 1
                    if quick and n % 11 != 0:
                        continue
                    for cls in _cls_opts(ltag, True):
                        spec = LY.make_spec(blocks, levels, {}, default_level=dl, default_cls=cls, bystander=(n % 6 == 0),
                                            fock_dims={"e0": 2, "e1": 3})
                        cells.append(_cell(spec, tag, ltag, cls, bool(n % 2), seed,
                                           {"kind": "kraus", "entry": entry, "targets": [LY.rename(spec, t) for t in tg], "ops": {"name": ch, "seed": 7 + ci}},
                                           variant=ch, reordered=True, ntargets=len(tg)))
    for order, tag in ((["e0.f", "e0.p"], "envalone01"), (["e0.p", "e0.f"], "envalone10"), (None, "alone")):
        for lv, clss in (("V", ["pure"]), ("M", ["mixed"]), ("L", ["basis"])):
            for cls in clss:
                if order is None:
                    spec = LY.make_spec([], {}, {}, envs=("e0",), customs=("c0",), composite=False, default_level=lv, default_cls=cls, fock_dims={"e0": 3})
                elif lv == "L":
                    continue
                else:
                    spec = LY.make_spec([("env", order)], {order[0]: lv}, {order[0]: cls}, envs=("e0",), customs=(), composite=False, fock_dims={"e0": 3})
                pl = [("self", ["e0.f"]), ("self", ["e0.p"]), ("env", ["e0.f"]), ("env", ["e0.p"]), ("env", ["e0.f", "e0.p"]), ("env", ["e0.p", "e0.f"])]
                if order is None:
                    pl.append(("self", ["c0"]))
                for entry, tg in pl:
                    for ci, ch in enumerate(chans[:5]):
                        for contraction in (True, False):
                            cells.append(_cell(spec, tag, lv, cls, contraction, seed,
                                               {"kind": "kraus", "entry": entry, "targets": [LY.rename(spec, t) for t in tg], "ops": {"name": ch, "seed": 7 + ci}},
                                               variant=ch, ntargets=len(tg)))
    return cells


def stale_cache_cells(tier: str, seed: int):
    """Operations / channels / POVMs / measurements / partial traces on an UNCOMBINED envelope that still carries a cached level."""
    cells = []
    for stale in ("V", "M"):
        for lv, cls in (("L", "basis"), ("V", "pure"), ("M", "mixed")):
            for composite in (True,):
                spec = LY.make_spec([], {}, {}, envs=("e0", "e1") if composite else ("e0",), customs=("c0",) if composite else (), composite=composite,
                                    default_level=lv, default_cls=cls, fock_dims={"e0": 2, "e1": 3})
                spec["stale_level_cache"] = stale
                tag = ("own" if composite else "alone") + "+stale-cache"
                R = lambda m: LY.rename(spec, m)
                acts = [{"kind": "kraus", "entry": "env", "targets": [R("e0.f"), R("e0.p")], "ops": {"name": "random2", "seed": 5}},
                        {"kind": "kraus", "entry": "env", "targets": [R("e0.p"), R("e0.f")], "ops": {"name": "dephasing", "seed": 5}},
                        {"kind": "kraus", "entry": "env", "targets": [R("e0.p")], "ops": {"name": "amplitude_damping", "seed": 5}},
                        {"kind": "povm", "entry": "env", "targets": [R("e0.f"), R("e0.p")], "ops": {"n": 2, "seed": 3, "projective": False}, "flags": {"destructive": False}},
                        {"kind": "trace_out", "entry": "env", "targets": [R("e0.p"), R("e0.f")]},
                        {"kind": "trace_out", "entry": "env", "targets": [R("e0.f")]},
                        {"kind": "measure", "entry": "env", "targets": [R("e0.f")], "flags": {"destructive": False}},
                        {"kind": "op", "entry": "env", "fam": "Polarization", "type": "H", "params": {}, "targets": [R("e0.p")]},
                        {"kind": "op", "entry": "env", "fam": "Fock", "type": "Creation", "params": {}, "targets": [R("e0.f")]},
                        {"kind": "resize", "entry": "env", "targets": [R("e0.f")], "new": "+1"}]
                if composite:
                    acts += [{"kind": "op", "entry": "ce", "fam": "Composite", "type": "CXPolarization", "params": {}, "targets": [R("e0.p"), R("e1.p")]},
                             {"kind": "kraus", "entry": "ce", "targets": [R("e0.f"), R("e0.p")], "ops": {"name": "random2", "seed": 6}}]
                for a in acts:
                    cells.append(_cell(spec, tag, lv, cls, True, seed, a, variant=a["kind"] + "-stale" + stale, ntargets=len(a["targets"]),
                                       flags=_flagtag(a.get("flags", {}))))
    return cells


def resize_cells(tier: str, seed: int):
    """C10: resize at the three entry points; state classes with support touching the top level ('pure',
    'mixed': population everywhere) and with an empty top level ('lowfock', 'mixedlow')."""
    cells = []
    quick = tier == "quick"
    n = 0
    for si, (tag, blocks) in enumerate(LY.STRUCTS):
        for ltag, levels, dl in LY.level_settings(blocks, [], tier):
            for target in ("e0.f", "e1.f"):
                for new in ("+2", "+1", "0", "-1", "-2", -5, 0):
                    for entry in ("self", "env", "ce"):
                        n += 1
                        if quick and n % 4 != 0:
                            continue
                        clss = {"V": ["pure", "lowfock", "ghz"], "M": ["mixed", "mixedlow", "classical"], "L": ["basis"]}[ltag]
                        for cls in clss:
                            spec = LY.make_spec(blocks, levels, {}, default_level=dl, default_cls=cls, bystander=(n % 6 == 0))
                            cells.append(_cell(spec, tag, ltag, cls, True, seed,
                                               {"kind": "resize", "entry": entry, "targets": [LY.rename(spec, target)], "new": new},
                                               variant=str(new), reordered=True))
    for order, tag in ((["e0.f", "e0.p"], "envalone01"), (["e0.p", "e0.f"], "envalone10"), (None, "alone")):
        for lv, clss in (("V", ["pure", "lowfock", "basis"]), ("M", ["mixed", "mixedlow", "basis"]), ("L", ["basis"])):
            for cls in clss:
                if order is None:
                    spec = LY.make_spec([], {}, {}, envs=("e0",), customs=(), composite=False, default_level=lv, default_cls=cls, fock_dims={"e0": 4},
                                        labels={"e0.f": 2})
                elif lv == "L":
                    continue
                else:
                    spec = LY.make_spec([("env", order)], {order[0]: lv}, {order[0]: cls}, envs=("e0",), customs=(), composite=False, fock_dims={"e0": 4})
                for new in ("+3", "+1", "0", "-1", "-2", "-3", 0, -1, 2, 3):
                    for entry in ("self", "env"):
                        cells.append(_cell(spec, tag, lv, cls, True, seed,
                                           {"kind": "resize", "entry": entry, "targets": ["e0.f"], "new": new}, variant=str(new)))
    return cells


def after_measure_cells(tier: str, seed: int):
    """C05 continuation: after a measurement, use of a destroyed subsystem fails, survivors stay usable,
    non-destructively measured subsystems re-measure to the same value."""
    cells = []
    quick = tier == "quick"
    n = 0
    X = {"kind": "op", "entry": "self", "fam": "Polarization", "type": "X", "params": {}}
    CRE = {"kind": "op", "entry": "self", "fam": "Fock", "type": "Creation", "params": {}}
    for si, (tag, blocks) in enumerate(LY.STRUCTS):
        for ltag, levels, dl in LY.level_settings(blocks, [], tier):
            if ltag == "L" and quick:
                continue
            for entry, tg in (("self", ["e0.f"]), ("ce", ["e0.p"]), ("env", ["e0.f"]), ("ce", ["e0.f", "e1.p"])):
                for flags in ({}, {"destructive": False}, {"separate_measurement": True}):
                    n += 1
                    if quick and n % 4 != 0:
                        continue
                    cls = {"V": "pure", "M": "mixed", "L": "basis"}[ltag]
                    spec = LY.make_spec(blocks, levels, {}, default_level=dl, default_cls=cls, fock_dims={"e0": 2, "e1": 3})
                    R = lambda m: LY.rename(spec, m)
                    first = {"kind": "measure", "entry": entry, "targets": [R(t) for t in tg], "flags": flags}
                    destructive = flags.get("destructive", True)
                    sep = flags.get("separate_measurement", False)
                    measured = set(tg)
                    if not sep:
                        for t in tg:
                            if "." in t:
                                measured.add(t[:3] + ("p" if t.endswith("f") else "f"))
                    steps = [first]
                    if destructive:
                        for m in sorted(measured):
                            if m.endswith(".f"):
                                steps.append(dict(CRE, targets=[R(m)], must_raise=True))
                            elif m.endswith(".p"):
                                steps.append(dict(X, targets=[R(m)], must_raise=True))
                            if "." in m:
                                steps.append({"kind": "measure", "entry": "self", "targets": [R(m)], "flags": {}, "must_raise": True})
                                steps.append({"kind": "kraus", "entry": "self", "targets": [R(m)], "ops": {"name": "dephasing"}, "must_raise": True})
                    else:
                        for m in sorted(measured):
                            steps.append({"kind": "measure", "entry": "self", "targets": [R(m)], "flags": {"destructive": False, "separate_measurement": True}})
                    # survivors stay usable
                    for sv in ("e1.p", "e1.f", "c0", "e0.p", "e0.f"):
                        if sv in measured and destructive:
                            continue
                        if sv.endswith(".p"):
                            steps.append(dict(X, targets=[R(sv)]))
                        elif sv.endswith(".f") and sv not in measured:
                            steps.append({"kind": "op", "entry": "self", "fam": "Fock", "type": "PhaseShift", "params": {"phi": 0.3}, "targets": [R(sv)]})
                        break
                    cells.append(_cell(spec, tag, ltag, cls, bool(n % 2), seed, {"kind": "seq", "steps": steps, "targets": [R(t) for t in tg], "entry": entry, "usable_prop": "C05"},
                                       flags=_flagtag(flags), variant="after-measure"))
    # a stand-alone envelope (no composite envelope), combined at envelope level: after a non-destructive measurement every
    # envelope-level request (generalised measurement, channel, operation, measurement; one or both members) still works
    for order, tag in ((["e0.f", "e0.p"], "envalone01"), (["e0.p", "e0.f"], "envalone10")):
        for lv, cls in (("V", "pure"), ("M", "mixed"), ("M", "nearpure")):
            for entry, tg in (("env", ["e0.f"]), ("self", ["e0.p"]), ("self", ["e0.f"])):
                spec = LY.make_spec([("env", order)], {order[0]: lv}, {order[0]: cls}, envs=("e0",), customs=(), composite=False, fock_dims={"e0": 3})
                R = lambda m: LY.rename(spec, m)
                first = {"kind": "measure", "entry": entry, "targets": [R(t) for t in tg], "flags": {"destructive": False}}
                conts = [
                    [{"kind": "povm", "entry": "env", "targets": [R("e0.f"), R("e0.p")], "ops": {"n": 2, "seed": 5, "projective": True}, "flags": {"destructive": False}}],
                    [{"kind": "povm", "entry": "env", "targets": [R("e0.p"), R("e0.f")], "ops": {"n": 3, "seed": 4, "projective": False}, "flags": {"destructive": False}}],
                    [{"kind": "povm", "entry": "env", "targets": [R("e0.p")], "ops": {"n": 2, "seed": 3, "projective": False}, "flags": {"destructive": False}}],
                    [{"kind": "kraus", "entry": "env", "targets": [R("e0.f"), R("e0.p")], "ops": {"name": "random2", "seed": 8}}],
                    [{"kind": "kraus", "entry": "env", "targets": [R("e0.p")], "ops": {"name": "dephasing", "seed": 8}}],
                    [dict(X, entry="env", targets=[R("e0.p")]), {"kind": "measure", "entry": "env", "targets": [R("e0.p")], "flags": {"destructive": False}}],
                    [{"kind": "op", "entry": "env", "fam": "Fock", "type": "PhaseShift", "params": {"phi": 0.3}, "targets": [R("e0.f")]},
                     {"kind": "measure", "entry": "env", "targets": [R("e0.f")], "flags": {}}],
                ]
                for ci, cont in enumerate(conts):
                    n += 1
                    steps = [first,
                             {"kind": "measure", "entry": "self", "targets": [R("e0.f")], "flags": {"destructive": False, "separate_measurement": True}},
                             {"kind": "measure", "entry": "self", "targets": [R("e0.p")], "flags": {"destructive": False, "separate_measurement": True}}] + cont
                    cells.append(_cell(spec, tag, lv, cls, bool(n % 2), seed, {"kind": "seq", "steps": steps, "targets": [R(t) for t in tg], "entry": entry, "usable_prop": "C05"},
                                       flags="destructive=False", variant=f"after-measure-standalone{ci}"))
    return cells


def invalid_cells(tier: str, seed: int):
    """C17: every kind of invalid request at every entry point x layout x level, followed by a valid continuation."""
    cells = []
    quick = tier == "quick"
    n = 0
    CONT = {"e0.f": {"kind": "op", "entry": "self", "fam": "Fock", "type": "PhaseShift", "params": {"phi": 0.4}},
            "e0.p": {"kind": "op", "entry": "self", "fam": "Polarization", "type": "H", "params": {}},
            "c0": {"kind": "op", "entry": "self", "fam": "Custom", "type": "Custom", "params": {"operator": {"unitary": 31}}}}
    for si, (tag, blocks) in enumerate(LY.STRUCTS):
        for ltag, levels, dl in LY.level_settings(blocks, [], tier):
            for cls in ({"V": ["pure"], "M": ["mixed"], "L": ["basis"]}[ltag]):
                plans = []
                for t in ("e0.f", "e0.p", "c0"):
                    ents = ["self", "ce"] + ([] if t == "c0" else ["env"])
                    for entry in ents:
                        plans += [("kraus-not-trace-preserving", entry, [t], {}), ("kraus-wrong-size", entry, [t], {}),
                                  ("povm-wrong-size", entry, [t], {}),
                                  ("kraus-not-trace-preserving", entry, [t], {"ktype": ("imaginary-overlap", "real-overlap", "one-diagonal-entry", "too-large")[(si + len(plans)) % 4]})]
                        if t != "e0.f":     # a Fock space is resized to the dimension of a custom operator: not an invalid request
                            plans.append(("custom-operator-wrong-size", entry, [t], {}))
                        if entry != "self":
                            plans.append(("wrong-kind-of-subsystem", entry, [t], {}))
                            plans.append(("wrong-kind-with-used-operation", entry, [t], {}))
                plans += [("kraus-wrong-size", "ce", ["e0.p", "e1.p"], {}), ("kraus-not-trace-preserving", "env", ["e0.f", "e0.p"], {}),
                          ("povm-wrong-size", "ce", ["e1.p", "e0.f"], {}), ("duplicate-kraus-targets", "ce", ["e0.p"], {}),
                          ("shrink-below-occupied-levels", "self", ["e0.f"], {"new": 1}), ("shrink-below-occupied-levels", "env", ["e0.f"], {"new": 1}),
                          ("shrink-below-occupied-levels", "ce", ["e0.f"], {"new": 1}), ("shrink-below-occupied-levels", "self", ["e0.f"], {"new": 0}),
                          ("shrink-below-occupied-levels", "ce", ["e1.f"], {"new": -3})]
                for what, entry, tg, extra in plans:
                    n += 1
                    if what == "shrink-below-occupied-levels" and cls == "basis":
                        continue
                    if what == "shrink-below-occupied-levels":
                        cls_used = {"pure": "ghz", "mixed": "classical"}.get(cls, cls) if n % 2 else cls
                    else:
                        cls_used = cls
                    # quick tier: a stride sample, except for the small families whose detection power must not depend on the stride
                    # (states with diagonal reduced state for shrink requests, used Operation objects, the kinds of invalid Kraus sets)
                    keep = (what == "shrink-below-occupied-levels" and cls_used in ("ghz", "classical")) or (what == "wrong-kind-with-used-operation" and n % 2 == 0) \
                        or ("ktype" in extra and n % 3 == 0)
                    if quick and n % 5 != 0 and not keep:
                        continue
                    spec = LY.make_spec(blocks, levels, {}, default_level=dl, default_cls=cls_used, bystander=(n % 7 == 0),
                                        fock_dims=({"e0": 2} if what == "wrong-kind-with-used-operation" else None))
                    a = {"kind": "invalid", "what": what, "entry": entry, "targets": [LY.rename(spec, t) for t in tg],
                         "then": [dict(CONT[tg[0]], targets=[LY.rename(spec, tg[0])])] if tg[0] in CONT else [], **extra}
                    cells.append(_cell(spec, tag, ltag, cls, bool(n % 2), seed, a, variant=what + (":" + extra["ktype"] if "ktype" in extra else ""), ntargets=len(tg),
                                       target_store="+".join(sorted({LY.block_of(blocks, t)[0] for t in tg})), always=bool(keep)))
    # vacuum annihilation: the target Fock is in |0> (possibly entangled partners elsewhere)
    for tag, blocks in (("own", []), ("env01", [("env", ["e0.f", "e0.p"])]), ("ps:f0,p1", [("ps", ["e0.f", "e1.p"])]), ("ps:c0,f0", [("ps", ["c0", "e0.f"])])):
        for lv in ("L", "V", "M"):
            for entry in ("self", "env", "ce"):
                lvl = {b[1][0]: ("V" if lv == "L" else lv) for b in blocks}
                spec = LY.make_spec(blocks, lvl, {b[1][0]: "basis" for b in blocks}, default_level=lv, default_cls="basis", labels={"e0.f": 0, "e1.f": 1})
                for b in spec["blocks"]:
                    if b["kind"] != "own" or b["members"] == [LY.rename(spec, "e0.f")]:
                        b["cls"], b["label"] = "basis", 0
                a = {"kind": "invalid", "what": "annihilate-the-vacuum", "entry": entry, "targets": [LY.rename(spec, "e0.f")],
                     "then": [{"kind": "op", "entry": "self", "fam": "Fock", "type": "Creation", "params": {}, "targets": [LY.rename(spec, "e0.f")]}]}
                cells.append(_cell(spec, tag, lv, "basis", True, seed, a, variant="annihilate-the-vacuum", target_store=LY.block_of(blocks, "e0.f")[0]))
    # subsystems outside the container: a second, unrelated composite envelope / envelope
    for lv, cls in (("V", "pure"), ("M", "mixed")):
        spec = LY.make_spec([("ps", ["e0.f", "e1.p"])], {"e0.f": lv}, {}, default_level=lv, default_cls=cls, bystander=True)
        for what, entry, tg, foreign in (("subsystem-outside-the-container", "ce", ["e0.p"], "e2.p"), ("subsystem-outside-the-container", "env", ["e0.p"], "e1.p"),
                                        ("kraus-outside-the-container", "ce", ["e0.p"], "e2.p"), ("kraus-outside-the-container", "env", ["e0.f"], "e1.p"),
                                        ("subsystem-outside-the-container", "ce", ["e0.f"], "e2.f")):
            a = {"kind": "invalid", "what": what, "entry": entry, "targets": [LY.rename(spec, t) for t in tg], "foreign": foreign,
                 "then": [{"kind": "op", "entry": "self", "fam": "Polarization", "type": "H", "params": {}, "targets": [LY.rename(spec, "e0.p")]}]}
            cells.append(_cell(spec, "ps:f0,p1+bystander", lv, cls, True, seed, a, variant=what, target_store="foreign"))
    return cells


S3 = [("ps", ["e0.p", "c0"]), ("ps", ["e1.p", "e1.f"]), ("ps", ["e2.f", "e2.p"])]


def three_space_cells(tier: str, seed: int):
    """One composite envelope holding THREE product spaces: actions addressing members of two of them must merge exactly
    those two and leave the third (a bystander inside the same composite envelope) untouched (C20), with the right physics."""
    cells = []
    for lv, cls in (("V", "pure"), ("M", "mixed")):
        spec = LY.make_spec(S3, {b[1][0]: lv for b in S3}, {}, envs=("e0", "e1", "e2"), default_level=lv, default_cls=cls,
                            fock_dims={"e0": 2, "e1": 2, "e2": 2})
        R = lambda m: LY.rename(spec, m)
        acts = [{"kind": "kraus", "entry": "ce", "targets": [R("e0.p"), R("e1.p")], "ops": {"name": "random2", "seed": 4}},
                {"kind": "kraus", "entry": "ce", "targets": [R("e1.f"), R("c0")], "ops": {"name": "dephasing", "seed": 4}},
                {"kind": "kraus", "entry": "ce", "targets": [R("e0.p")], "ops": {"name": "amplitude_damping", "seed": 4}},
                {"kind": "povm", "entry": "ce", "targets": [R("e1.p"), R("e0.p")], "ops": {"n": 2, "seed": 3, "projective": False}, "flags": {"destructive": False}},
                {"kind": "povm", "entry": "ce", "targets": [R("e0.p"), R("e1.p")], "ops": {"n": 2, "seed": 5, "projective": True}, "flags": {}},
                {"kind": "op", "entry": "ce", "fam": "Composite", "type": "CXPolarization", "params": {}, "targets": [R("e0.p"), R("e1.p")]},
                {"kind": "op", "entry": "ce", "fam": "Composite", "type": "CZPolarization", "params": {}, "targets": [R("e2.p"), R("e0.p")]},
                {"kind": "op", "entry": "self", "fam": "Polarization", "type": "H", "params": {}, "targets": [R("e1.p")]},
                {"kind": "trace_out", "entry": "ce", "targets": [R("e1.p"), R("e0.p")]},
                {"kind": "trace_out", "entry": "ce", "targets": [R("e2.f")]},
                {"kind": "measure", "entry": "ce", "targets": [R("e0.p")], "flags": {"destructive": False, "separate_measurement": True}},
                {"kind": "measure", "entry": "ce", "targets": [R("e0.p"), R("e1.p")], "flags": {}},
                {"kind": "structural", "what": "combine", "entry": "ce", "targets": [R("e1.f"), R("e0.p")]},
                {"kind": "structural", "what": "reorder", "entry": "ce", "targets": [R("e1.f"), R("e1.p")]},
                {"kind": "resize", "entry": "ce", "targets": [R("e1.f")], "new": "+2"}]
        for a in acts:
            cells.append(_cell(spec, "3ps:p0,c0|p1,f1|f2,p2", lv, cls, True, seed, a, variant=a["kind"] + "-3ps", ntargets=len(a["targets"]),
                               flags=_flagtag(a.get("flags", {})), reordered=True, target_store="ps"))
    return cells
