"""Spec functions (plain NumPy/SciPy, independent of the library) — DESIGN 4.1 / appendix D, and the
textbook operator definitions shared by the level-P contracts of C12."""
from __future__ import annotations

import math
from typing import Dict, List, Sequence

import numpy as np
from scipy.linalg import expm as _expm


# ------------------------------------------------------------------------------------------------ linear algebra specs
def embed_op(O: np.ndarray, targets: Sequence[int], dims: Sequence[int]) -> np.ndarray:
    """O acting with its j-th tensor factor on subsystem targets[j], identity elsewhere."""
    n = len(dims)
    targets = list(targets)
    rest = [i for i in range(n) if i not in targets]
    perm = targets + rest
    dperm = [dims[i] for i in perm]
    drest = int(np.prod([dims[i] for i in rest])) if rest else 1
    dt = int(np.prod([dims[i] for i in targets])) if targets else 1
    if O.shape != (dt, dt):
        raise ValueError(f"operator shape {O.shape} does not fit target dimensions {[dims[i] for i in targets]}")
    full = np.kron(O, np.eye(drest)).reshape(dperm + dperm)
    inv = list(np.argsort(perm))
    full = full.transpose(inv + [n + i for i in inv])
    D = int(np.prod(dims))
    return full.reshape(D, D)


def left_apply(O: np.ndarray, targets: Sequence[int], dims: Sequence[int], A: np.ndarray) -> np.ndarray:
    """embed_op(O, targets, dims) @ A without building the embedded operator (tensor contraction over the target axes;
    self_check compares it with the dense product)."""
    n = len(dims)
    targets = list(targets)
    rest = [i for i in range(n) if i not in targets]
    perm = targets + rest
    dt = int(np.prod([dims[i] for i in targets])) if targets else 1
    if O.shape != (dt, dt):
        raise ValueError(f"operator shape {O.shape} does not fit target dimensions {[dims[i] for i in targets]}")
    cols = A.shape[1]
    t = A.reshape(list(dims) + [cols]).transpose(perm + [n])
    shp = t.shape
    t = (O @ t.reshape(dt, -1)).reshape(shp)
    inv = list(np.argsort(perm))
    return t.transpose(inv + [n]).reshape(A.shape)


def conj_apply(O, targets, dims, rho) -> np.ndarray:
    """(O x I) rho (O x I)^dagger"""
    O = np.asarray(O, dtype=complex)
    A = left_apply(O, targets, dims, np.asarray(rho, dtype=complex))
    return left_apply(O, targets, dims, A.conj().T).conj().T


def spec_apply(rho, dims, targets, O, renormalise: bool):
    out = conj_apply(O, targets, dims, rho)
    if renormalise:
        tr = np.trace(out).real
        if tr > 1e-14:
            out = out / tr
    return out


def spec_kraus(rho, dims, targets, Ks):
    out = np.zeros_like(rho)
    for K in Ks:
        out = out + conj_apply(K, targets, dims, rho)
    return out


def spec_ptrace(rho, dims, keep: Sequence[int]):
    """Reduced state of subsystems `keep`, output axes in the order of `keep`."""
    n = len(dims)
    keep = list(keep)
    t = rho.reshape(list(dims) + list(dims))
    rest = [i for i in range(n) if i not in keep]
    perm = keep + rest
    t = t.transpose(perm + [n + p for p in perm])
    dk = int(np.prod([dims[i] for i in keep])) if keep else 1
    dr = int(np.prod([dims[i] for i in rest])) if rest else 1
    t = t.reshape(dk, dr, dk, dr)
    return np.einsum("arbr->ab", t)


def spec_born(rho, dims, x: int) -> np.ndarray:
    return np.real(np.diag(spec_ptrace(rho, dims, [x])))


def spec_project(rho, dims, x: int, outcome: int):
    """P rho P / Tr(P rho), P = |o><o|_x (x) I.  Returns (rho', probability)."""
    P = np.zeros((dims[x], dims[x]), dtype=complex)
    if 0 <= outcome < dims[x]:
        P[outcome, outcome] = 1
    out = conj_apply(P, [x], dims, rho)
    p = np.trace(out).real
    return (out / p if p > 1e-15 else out), p


def spec_remove(rho, dims, x: int):
    keep = [i for i in range(len(dims)) if i != x]
    return spec_ptrace(rho, dims, keep), [dims[i] for i in keep]


def spec_povm_probs(rho, dims, targets, Ms) -> np.ndarray:
    ps = []
    for M in Ms:
        ps.append(np.trace(conj_apply(M, targets, dims, rho)).real)
    return np.array(ps)


def spec_povm_post(rho, dims, targets, M):
    out = conj_apply(M, targets, dims, rho)
    p = np.trace(out).real
    return (out / p if p > 1e-15 else out), p


def is_pure(rho, tol=1e-9) -> bool:
    return abs(np.trace(rho @ rho).real - 1) < tol


def close(a, b, tol=1e-8) -> float:
    return float(np.max(np.abs(np.asarray(a) - np.asarray(b)))) if np.asarray(a).shape == np.asarray(b).shape else float("inf")


# ------------------------------------------------------------------------------------------------ textbook operators
SQ2 = math.sqrt(2)
I2 = np.eye(2, dtype=complex)
X = np.array([[0, 1], [1, 0]], dtype=complex)
Y = np.array([[0, -1j], [1j, 0]], dtype=complex)
Z = np.array([[1, 0], [0, -1]], dtype=complex)
H = np.array([[1, 1], [1, -1]], dtype=complex) / SQ2
S = np.array([[1, 0], [0, 1j]], dtype=complex)
T = np.array([[1, 0], [0, np.exp(1j * math.pi / 4)]], dtype=complex)
SX = np.array([[1 + 1j, 1 - 1j], [1 - 1j, 1 + 1j]], dtype=complex) / 2
CNOT = np.array([[1, 0, 0, 0], [0, 1, 0, 0], [0, 0, 0, 1], [0, 0, 1, 0]], dtype=complex)
CZ = np.diag([1, 1, 1, -1]).astype(complex)
SWAP = np.array([[1, 0, 0, 0], [0, 0, 1, 0], [0, 1, 0, 0], [0, 0, 0, 1]], dtype=complex)
CSWAP = np.eye(8, dtype=complex)
CSWAP[[5, 6]] = CSWAP[[6, 5]]


def rx(t):
    return np.array([[math.cos(t / 2), -1j * math.sin(t / 2)], [-1j * math.sin(t / 2), math.cos(t / 2)]], dtype=complex)


def ry(t):
    return np.array([[math.cos(t / 2), -math.sin(t / 2)], [math.sin(t / 2), math.cos(t / 2)]], dtype=complex)


def rz(t):
    return np.array([[np.exp(-1j * t / 2), 0], [0, np.exp(1j * t / 2)]], dtype=complex)


def u3(phi, theta, omega):
    # convention of the library's documentation: U3(phi, theta, omega)
    c, s = math.cos(theta / 2), math.sin(theta / 2)
    return np.array([[c, -np.exp(1j * omega) * s], [np.exp(1j * phi) * s, np.exp(1j * (phi + omega)) * c]], dtype=complex)


def annihilation(d):
    a = np.zeros((d, d), dtype=complex)
    for n in range(1, d):
        a[n - 1, n] = math.sqrt(n)
    return a


def creation(d):
    return annihilation(d).conj().T


def number(d):
    return np.diag(np.arange(d)).astype(complex)


def phase(d, theta):
    return np.diag(np.exp(1j * np.arange(d) * theta))


def displace(d, alpha):
    a = annihilation(d)
    return _expm(alpha * a.conj().T - np.conj(alpha) * a)


def squeeze(d, zeta):
    a = annihilation(d)
    return _expm(0.5 * (np.conj(zeta) * (a @ a) - zeta * (a.conj().T @ a.conj().T)))


def beamsplitter(d1, d2, eta):
    a, b = annihilation(d1), annihilation(d2)
    G = np.kron(a, b.conj().T) + np.kron(a.conj().T, b)
    return _expm(1j * eta * G)


def coherent_amplitudes(alpha, d):
    out = np.zeros(d, dtype=complex)
    for n in range(d):
        out[n] = np.exp(-abs(alpha) ** 2 / 2) * alpha ** n / math.sqrt(math.factorial(n))
    return out


def squeezed_vacuum_amplitudes(zeta, d):
    r, phi = abs(zeta), np.angle(zeta)
    out = np.zeros(d, dtype=complex)
    for m in range(0, (d + 1) // 2):
        n = 2 * m
        if n < d:
            out[n] = (1 / math.sqrt(math.cosh(r))) * ((-np.exp(1j * phi) * math.tanh(r)) ** m) * math.sqrt(math.factorial(n)) / (2 ** m * math.factorial(m))
    return out


def self_check() -> List[str]:
    """Oracle self-check by algebraic identities (an error in the oracle is exit 3, never a verdict)."""
    errs = []
    rng = np.random.default_rng(7)
    dims = [3, 2, 2]
    D = 12
    A = rng.normal(size=(D, D)) + 1j * rng.normal(size=(D, D))
    rho = A @ A.conj().T
    rho /= np.trace(rho)
    U = np.linalg.qr(rng.normal(size=(4, 4)) + 1j * rng.normal(size=(4, 4)))[0]
    out = spec_apply(rho, dims, [2, 1], U, False)
    for tg, Op in (([2, 1], U), ([0], rng.normal(size=(3, 3)) + 1j * rng.normal(size=(3, 3))), ([1, 0, 2], rng.normal(size=(12, 12)) + 0j)):
        E = embed_op(np.asarray(Op, dtype=complex), tg, dims)
        if close(conj_apply(Op, tg, dims, rho), E @ rho @ E.conj().T) > 1e-10:
            errs.append(f"conj_apply differs from the dense embedded product for targets {tg}")
    if abs(np.trace(out) - 1) > 1e-10:
        errs.append("spec_apply does not preserve the trace under a unitary")
    # ptrace of a product
    r1 = np.diag([0.2, 0.3, 0.5]).astype(complex)
    r2 = np.array([[0.6, 0.2j], [-0.2j, 0.4]])
    r3 = np.array([[0.5, 0.5], [0.5, 0.5]], dtype=complex)
    prod = np.kron(np.kron(r1, r2), r3)
    if close(spec_ptrace(prod, dims, [1]), r2) > 1e-12 or close(spec_ptrace(prod, dims, [2, 0]), np.kron(r3, r1)) > 1e-12:
        errs.append("spec_ptrace of a product state is not the factor")
    # embed_op ordering: CNOT with control 2, target 1 flips subsystem 1 when subsystem 2 is |1>
    v = np.zeros(12); v[0 * 4 + 0 * 2 + 1] = 1    # |0,0,1>
    w = embed_op(CNOT, [2, 1], dims) @ v
    if abs(w[0 * 4 + 1 * 2 + 1] - 1) > 1e-12:
        errs.append("embed_op binds tensor factors to targets in the wrong order")
    if close(spec_born(prod, dims, 0), np.array([0.2, 0.3, 0.5])) > 1e-12:
        errs.append("spec_born is not the diagonal of the reduced state")
    Ks = [np.sqrt(0.3) * X, np.sqrt(0.7) * I2]
    if abs(np.trace(spec_kraus(rho, dims, [1], Ks)) - 1) > 1e-10:
        errs.append("spec_kraus does not preserve the trace for a complete set")
    if close(rx(0.3) @ rx(0.4), rx(0.7)) > 1e-12 or close(SX @ SX, X) > 1e-12 or close(T @ T, S) > 1e-12:
        errs.append("textbook gate identities fail")
    a = annihilation(6)
    comm = a @ a.conj().T - a.conj().T @ a
    if close(np.diag(comm)[:-1], np.ones(5)) > 1e-12:
        errs.append("[a, a^dagger] != 1 below the cut-off")
    if close(displace(40, 0.7 + 0.2j)[:, 0][:10], coherent_amplitudes(0.7 + 0.2j, 40)[:10]) > 1e-9:
        errs.append("displacement of the vacuum is not the coherent state")
    if close(squeeze(60, 0.3 * np.exp(0.4j))[:, 0][:8], squeezed_vacuum_amplitudes(0.3 * np.exp(0.4j), 60)[:8]) > 1e-9:
        errs.append("squeezing of the vacuum is not the squeezed vacuum")
    return errs


def su2_beamsplitter(d1: int, d2: int, eta: float) -> np.ndarray:
    """The beam splitter exp(i eta (a^dagger b + a b^dagger)) as the SU(2) mode transformation
    a^dagger -> cos(eta) a^dagger + i sin(eta) b^dagger, b^dagger -> i sin(eta) a^dagger + cos(eta) b^dagger, computed by
    polynomial expansion of (a^dagger)^m (b^dagger)^n |0,0> (independent of the matrix exponential).  Entries whose output
    leaves the truncated space are dropped (exact on inputs with m + n < min(d1, d2))."""
    from math import comb, factorial, sqrt
    U = np.zeros((d1 * d2, d1 * d2), dtype=complex)
    c, s = math.cos(eta), 1j * math.sin(eta)
    for m in range(d1):
        for n in range(d2):
            pref = 1 / sqrt(factorial(m) * factorial(n))
            for k in range(m + 1):          # (c a + s b)^m : choose k times a
                for l in range(n + 1):      # (s a + c b)^n : choose l times a
                    pa, pb = k + l, (m - k) + (n - l)
                    if pa < d1 and pb < d2:
                        amp = comb(m, k) * c ** k * s ** (m - k) * comb(n, l) * s ** l * c ** (n - l)
                        U[pa * d2 + pb, m * d2 + n] += pref * amp * sqrt(factorial(pa) * factorial(pb))
    return U
