"""Bounded space of world structures (DESIGN 4.3).

Universe of the main composite: envelopes e0 (Fock cut-off 3), e1 (cut-off 4), optional e2 (cut-off 3)
and custom state c0 (dimension 5); optional bystander: an unrelated composite envelope holding
envelope eb (cut-off 2) as one product space, and an unrelated custom state cb in its own composite.
A structure is a list of blocks; members not mentioned are stored on their own.
"""
from __future__ import annotations

import itertools
from typing import Any, Dict, Iterable, List, Optional, Sequence, Tuple

FOCK_DIMS = {"e0": 3, "e1": 4, "e2": 3, "eb": 2}
CUSTOM_DIMS = {"c0": 5, "cb": 2}

# (tag, blocks) ; block = ("env"|"ps", [members in storage order])
STRUCTS: List[Tuple[str, List[Tuple[str, List[str]]]]] = [
    ("own", []),
    ("env01", [("env", ["e0.f", "e0.p"])]),
    ("env10", [("env", ["e0.p", "e0.f"])]),
    ("env01+env1", [("env", ["e0.f", "e0.p"]), ("env", ["e1.p", "e1.f"])]),
    ("ps:f0,p1", [("ps", ["e0.f", "e1.p"])]),
    ("ps:p1,f0", [("ps", ["e1.p", "e0.f"])]),
    ("ps:p0,p1", [("ps", ["e0.p", "e1.p"])]),
    ("ps:p1,p0", [("ps", ["e1.p", "e0.p"])]),
    ("ps:f0,p0,c0", [("ps", ["e0.f", "e0.p", "c0"])]),
    ("ps:c0,p0,f1", [("ps", ["c0", "e0.p", "e1.f"])]),
    ("ps:p0,c0|p1,f1", [("ps", ["e0.p", "c0"]), ("ps", ["e1.p", "e1.f"])]),
    ("ps:f0,f1|p0,p1", [("ps", ["e0.f", "e1.f"]), ("ps", ["e0.p", "e1.p"])]),
    ("ps:f1,c0,f0,p1", [("ps", ["e1.f", "c0", "e0.f", "e1.p"])]),
    ("env0|ps:p1,c0", [("env", ["e0.p", "e0.f"]), ("ps", ["e1.p", "c0"])]),
    ("ps:f1,f0", [("ps", ["e1.f", "e0.f"])]),
    ("ps:c0,f0", [("ps", ["c0", "e0.f"])]),
]

STRUCTS3 = [   # universes with a third envelope (for three-operand gates)
    ("own3", []),
    ("ps:p2,p0|p1", [("ps", ["e2.p", "e0.p"])]),
    ("ps:p1,p2,p0", [("ps", ["e1.p", "e2.p", "e0.p"])]),
    ("env0|ps:p1,f2|p2", [("env", ["e0.f", "e0.p"]), ("ps", ["e1.p", "e2.f"])]),
    ("ps:p0,f1|ps:p2,p1", [("ps", ["e0.p", "e1.f"]), ("ps", ["e2.p", "e1.p"])]),
]


def members_of(envs: Sequence[str], customs: Sequence[str]) -> List[str]:
    out = []
    for e in envs:
        out += [f"{e}.f", f"{e}.p"]
    return out + list(customs)


def make_spec(blocks: List[Tuple[str, List[str]]], levels: Dict[str, str], cls: Dict[str, str],
              envs: Sequence[str] = ("e0", "e1"), customs: Sequence[str] = ("c0",), composite: bool = True,
              bystander: bool = False, default_level: str = "V", default_cls: str = "pure",
              labels: Optional[Dict[str, int]] = None, fock_dims: Optional[Dict[str, int]] = None) -> Dict[str, Any]:
    """levels / cls are keyed by the first member of a block (or the member itself for own blocks)."""
    envs = list(envs)
    customs = list(customs)
    fd = dict(FOCK_DIMS)
    fd.update(fock_dims or {})
    comp = [[*envs, *customs]] if composite else []
    if bystander:
        envs = envs + ["eb"]
        customs = customs + ["cb"]
        comp = comp + [["eb"], ["cb"]]
    ename = {e: f"e{i}" for i, e in enumerate(envs)}
    cname = {c: f"c{i}" for i, c in enumerate(customs)}

    def ren(m: str) -> str:
        if "." in m:
            e, part = m.split(".")
            return f"{ename[e]}.{part}"
        return cname[m]

    used = set()
    out_blocks = []
    for kind, mem in blocks:
        used |= set(mem)
        k = mem[0]
        lv = levels.get(k, default_level)
        out_blocks.append({"kind": kind, "members": [ren(m) for m in mem], "level": "V" if lv == "L" else lv,
                           "cls": cls.get(k, default_cls)})
    if bystander:
        used |= {"eb.f", "eb.p"}
        out_blocks.append({"kind": "ps", "members": [ren("eb.p"), ren("eb.f")], "level": "M", "cls": "mixed"})
    for m in members_of(envs, customs):
        if m in used:
            continue
        lv = levels.get(m, default_level)
        b = {"kind": "own", "members": [ren(m)], "level": lv, "cls": cls.get(m, default_cls if lv != "L" else "basis")}
        if lv == "L":
            b["label"] = (labels or {}).get(m, 1 if m.endswith(".f") else 0)
            b["cls"] = "basis"
        out_blocks.append(b)
    return {"envs": [fd[e] for e in envs], "customs": [CUSTOM_DIMS[c] for c in customs],
            "composites": [[(ename.get(x) or cname.get(x)) for x in grp] for grp in comp], "blocks": out_blocks,
            "names": {"env": ename, "custom": cname}}


def rename(spec: Dict[str, Any], m: str) -> str:
    if "." in m:
        e, part = m.split(".")
        return f"{spec['names']['env'][e]}.{part}"
    return spec["names"]["custom"][m]


def block_of(struct_blocks, m: str):
    for kind, mem in struct_blocks:
        if m in mem:
            return kind, mem
    return "own", [m]


def level_settings(struct_blocks, targets: Sequence[str], tier: str):
    """Level assignments to explore: all-V, all-M, target blocks M / rest V (and own label states)."""
    keys = [mem[0] for _, mem in struct_blocks]
    yield "V", {k: "V" for k in keys}, "V"
    yield "M", {k: "M" for k in keys}, "M"
    tk = {block_of(struct_blocks, t)[1][0] for t in targets}
    if keys and tk and tier == "thorough":
        yield "tM-rV", {k: ("M" if k in tk else "V") for k in keys}, "V"
    yield "L", {k: "V" for k in keys}, "L"
