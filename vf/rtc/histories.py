"""Short API histories with every contract enabled (DESIGN 4.3, thorough tier; a sample in quick).

Start: two envelopes (Fock cut-off 2) and a custom state (dimension 2) in one composite envelope, label states, then a
fixed preparation through the public API (superpositions / entanglement).  Then every sequence of k actions from a
16-letter alphabet of NON-destructive public calls (structural calls, operations, channels, non-destructive
measurements and POVMs, partial trace, resize).  Every outermost call is checked against its contract, so the
pre-states met here are exactly those the API can reach - the check that `well_formed` is not weaker than reachability
and that contracts hold along histories, not only from constructed pre-states."""
from __future__ import annotations

import itertools
from typing import Any, Dict, List

from . import layouts as LY

I1 = {"re": 0, "im": 1}


def alphabet(R):
    return {
        "env.combine": {"kind": "structural", "what": "combine", "entry": "env", "targets": [R("e0.f")]},
        "env.expand": {"kind": "structural", "what": "expand", "entry": "env", "targets": [R("e0.f")]},
        "env.reorder(p,f)": {"kind": "structural", "what": "reorder", "entry": "env", "targets": [R("e0.p"), R("e0.f")]},
        "ce.combine(f0,p1)": {"kind": "structural", "what": "combine", "entry": "ce", "targets": [R("e0.f"), R("e1.p")]},
        "ce.combine(p0,f0,c0)": {"kind": "structural", "what": "combine", "entry": "ce", "targets": [R("e0.p"), R("e0.f"), R("c0")]},
        "CX(p0,p1)": {"kind": "op", "entry": "ce", "fam": "Composite", "type": "CXPolarization", "params": {}, "targets": [R("e0.p"), R("e1.p")]},
        "H(p0)": {"kind": "op", "entry": "self", "fam": "Polarization", "type": "H", "params": {}, "targets": [R("e0.p")]},
        "Phase(f0)@env": {"kind": "op", "entry": "env", "fam": "Fock", "type": "PhaseShift", "params": {"phi": 0.9}, "targets": [R("e0.f")]},
        "measure(p0)nd": {"kind": "measure", "entry": "ce", "targets": [R("e0.p")], "flags": {"destructive": False}},
        "measure(f0)nd,sep": {"kind": "measure", "entry": "self", "targets": [R("e0.f")], "flags": {"destructive": False, "separate_measurement": True}},
        "env.measure(f0,p0)nd": {"kind": "measure", "entry": "env", "targets": [R("e0.f"), R("e0.p")], "flags": {"destructive": False}},
        "kraus(p0)": {"kind": "kraus", "entry": "self", "targets": [R("e0.p")], "ops": {"name": "dephasing", "seed": 3}},
        "env.kraus(f0,p0)": {"kind": "kraus", "entry": "env", "targets": [R("e0.f"), R("e0.p")], "ops": {"name": "random2", "seed": 4}},
        "trace_out(f0)": {"kind": "trace_out", "entry": "self", "targets": [R("e0.f")]},
        "povm(c0)nd": {"kind": "povm", "entry": "self", "targets": [R("c0")], "ops": {"n": 2, "seed": 3, "projective": False}, "flags": {"destructive": False}},
        "resize(f0)+1": {"kind": "resize", "entry": "self", "targets": [R("e0.f")], "new": "+1"},
    }


def history_cells(tier: str, seed: int):
    spec = LY.make_spec([], {}, {}, default_level="L", default_cls="basis", labels={"e0.f": 1, "e1.f": 0}, fock_dims={"e0": 2, "e1": 2})
    spec["customs"] = [2]
    R = lambda m: LY.rename(spec, m)
    A = alphabet(R)
    names = list(A)
    prep = [{"kind": "op", "entry": "self", "fam": "Polarization", "type": "H", "params": {}, "targets": [R("e0.p")]},
            {"kind": "op", "entry": "self", "fam": "Polarization", "type": "RX", "params": {"theta": 1.1}, "targets": [R("e1.p")]},
            {"kind": "op", "entry": "self", "fam": "Custom", "type": "Custom", "params": {"operator": {"unitary": 41}}, "targets": [R("c0")]},
            {"kind": "op", "entry": "ce", "fam": "Composite", "type": "NonPolarizingBeamSplitter", "params": {"eta": 0.6}, "targets": [R("e0.f"), R("e1.f")]}]
    seqs: List[tuple] = []
    for k in (1, 2):
        seqs += list(itertools.product(names, repeat=k))
    three = list(itertools.product(names, repeat=3))
    structural = [n for n in names if n.startswith(("env.", "ce."))]
    bracket = [(a, b, c, d) for a in structural for b in names for c in names for d in ("env.combine", "env.kraus(f0,p0)", "env.expand", "trace_out(f0)")]
    if tier == "thorough":
        seqs += three
        four = list(itertools.product(names, repeat=4))
        seqs += four[::8] + bracket
    else:
        seqs += three[seed % 32::32] + bracket[seed % 12::12]
    cells = []
    for i, sq in enumerate(dict.fromkeys(seqs)):
        # a step that raises is judged by its own contract (rejections outside the precondition must leave the state unchanged);
        # the history continues afterwards
        steps = [dict(p) for p in prep] + [dict(A[n], may_raise=True) for n in sq]
        cells.append({"world": spec, "layout": "history", "levels": "L", "cls": "api-history", "contraction": bool(i % 2), "seed": seed, "reordered": True,
                      "variant": " ; ".join(sq), "action": {"kind": "seq", "steps": steps, "targets": [], "entry": "seq", "fam": "history", "type": str(len(sq))}})
    return cells
