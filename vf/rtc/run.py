"""Turns cell results into report entries (violations with replay payloads, bounded counts)."""
from __future__ import annotations

import json
from typing import Any, Dict, Iterable, List, Sequence

from vf.common import Report
from . import cells as CE


def sig_of(cell: Dict[str, Any]) -> Dict[str, Any]:
    """Coarse descriptor of a cell: the fields known-finding classes are phrased over."""
    a = cell["action"]
    d = {"action": a["kind"], "entry": a.get("entry", ""), "optype": (a.get("fam", "") + "." + a.get("type", "")).strip("."),
         "layout": cell.get("layout", ""), "levels": cell.get("levels", ""), "cls": cell.get("cls", ""),
         "contraction": bool(cell.get("contraction", True)), "targets": ",".join(a.get("targets", []))}
    for k in ("flags", "variant", "ntargets", "target_kind", "target_store"):
        if k in cell:
            d[k] = cell[k]
        elif k in a:
            d[k] = a[k]
    return d


def nontrivial(cell: Dict[str, Any]) -> bool:
    cls = cell.get("cls", "")
    return cls not in ("", "basis") or cell.get("reordered", False)


def evaluate(rep: Report, results: List[Dict[str, Any]], props: Sequence[str], allow_raise: bool = False) -> None:
    for r in results:
        cell = r["cell"]
        if r.get("error"):
            rep.broken.append(f"cell {r['id']} crashed the harness: {r['error'].strip().splitlines()[-1]}")
            continue
        for c in r["clauses"]:
            if c["prop"] == "HANG":       # a non-terminating library call violates whatever property the cell belongs to
                c["prop"] = props[0]
        mine = [c for c in r["clauses"] if c["prop"] in props]
        eng = [c for c in r["clauses"] if c["prop"] == "ENGINE"]
        for c in eng:
            rep.broken.append(f"cell {r['id']}: {c['clause']}: {c['detail'][:300]}")
        for c in r["clauses"]:
            if c["prop"] == "TIMEOUT":
                rep.undecided.append(f"cell {r['id']}: {c['detail']}")
        build = [c for c in r["clauses"] if c["prop"] == "BUILD"]
        sg = sig_of(cell)
        rep.bounded({"cell": r["id"], **sg}, nontrivial(cell), evals=max(1, len(mine)))
        for c in build:
            # a structure the structural API cannot build well-formed is itself a finding of C13/C07 (DESIGN 4.3)
            rep.violation(f"world construction through the public API is not well-formed: {c['detail']}",
                          key=f"B:BUILD:{sg['layout']}:{sg['levels']}",
                          replay={"kind": "cell", "cell": cell, "clause": "constructed-world-is-well-formed", "method": "builder",
                                  "detail": c["detail"], **sg})
        for c in mine:
            if c["ok"]:
                continue
            key = f"B:{c['prop']}:{c['clause']}:{c['method']}:{sg['optype']}:{sg['entry']}:{sg['layout']}:{sg['levels']}:{sg.get('flags','')}:{sg.get('variant','')}"
            rep.violation(f"{c['method']} breaks clause '{c['clause']}' [{sg['optype'] or sg['action']} entry={sg['entry']} layout={sg['layout']} "
                          f"levels={sg['levels']} cls={sg['cls']} targets={sg['targets']} contraction={sg['contraction']}]: {c['detail'][:300]}",
                          key=key,
                          replay={"kind": "cell", "cell": cell, "clause": c["clause"], "method": c["method"], "detail": c["detail"],
                                  "forced": cell.get("forced"), **sg})


def explore_outcomes(make_cells, first: List[Dict[str, Any]], max_branch: int = 4, depth: int = 3, workers=None):
    """Depth-first over the draws of one call: re-executes a cell once per outcome of non-zero
    probability (bounded by max_branch alternatives per draw and `depth` draws)."""
    done = CE.run_cells(first, workers=workers)
    results = list(done)
    frontier = done
    for level in range(depth):
        nxt = []
        for r in frontier:
            if r.get("error"):
                continue
            script = list(r["cell"].get("forced") or [])
            draws = r["draws"]
            if len(draws) <= level or len(script) > level:
                continue
            p = draws[level]["p"] or []
            alts = [k for k, pk in enumerate(p) if pk is not None and pk > 1e-9 and k != draws[level]["chosen"]]
            for k in alts[:max_branch]:
                c2 = dict(r["cell"])
                c2["forced"] = [d["chosen"] for d in draws[:level]] + [k]
                nxt.append(c2)
        if not nxt:
            break
        frontier = CE.run_cells(nxt, workers=workers)
        results += frontier
    return results
