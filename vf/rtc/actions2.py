def perform(a, w, rng, rec, tg):
    raise ValueError("unknown action kind " + a["kind"])
