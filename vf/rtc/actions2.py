"""Actions, part 2: partial trace, structural calls, measurement, POVM, channels, resize, sequences."""
from __future__ import annotations

from typing import Any, Dict, List

import numpy as np

from . import world as W


def complete_set(D: int, n: int, seed: int, projective: bool = False) -> List[np.ndarray]:
    """n operators M_i on dimension D with sum M_i^dagger M_i = I (a CPTP Kraus set / complete POVM)."""
    r = np.random.default_rng(seed)
    if projective:
        U = np.linalg.qr(r.normal(size=(D, D)) + 1j * r.normal(size=(D, D)))[0]
        groups = np.array_split(np.arange(D), min(n, D))
        out = []
        for g in groups:
            P = np.zeros((D, D), dtype=complex)
            for k in g:
                P[k, k] = 1
            out.append(U @ P @ U.conj().T)
        return out
    As = [r.normal(size=(D, D)) + 1j * r.normal(size=(D, D)) for _ in range(n)]
    Ssum = sum(A.conj().T @ A for A in As)
    ev, V = np.linalg.eigh(Ssum)
    Sinv = V @ np.diag(ev ** -0.5) @ V.conj().T
    return [A @ Sinv for A in As]


def named_channel(name: str, D: int, seed: int) -> List[np.ndarray]:
    if name == "amplitude_damping" and D == 2:
        g = 0.35
        return [np.array([[1, 0], [0, np.sqrt(1 - g)]], dtype=complex), np.array([[0, np.sqrt(g)], [0, 0]], dtype=complex)]
    if name == "dephasing":
        p = 0.3
        Z = np.diag(np.exp(2j * np.pi * np.arange(D) / D))
        return [np.sqrt(1 - p) * np.eye(D, dtype=complex), np.sqrt(p) * Z]
    if name == "unitary":
        return complete_set(D, 1, seed)
    if name == "reset":   # maps everything to |0>: pure output from any input
        out = []
        for k in range(D):
            K = np.zeros((D, D), dtype=complex)
            K[0, k] = 1
            out.append(K)
        return out
    return complete_set(D, {"random2": 2, "random3": 3, "random4": 4}.get(name, 2), seed)


def _J(ops):
    import jax.numpy as jnp
    return [jnp.array(o) for o in ops]


def perform(a: Dict[str, Any], w, rng, rec, tg) -> List[Dict[str, Any]]:
    kind = a["kind"]
    entry = a.get("entry", "ce")
    out: List[Dict[str, Any]] = []
    if kind == "seq":
        from . import actions
        from . import world as W2
        last = None
        for sub in a["steps"]:
            raised = None
            before = W2.snapshot(w, check=False)
            try:
                out += actions.perform(sub, w, rng, rec) or []
            except Exception as ex:
                raised = ex
                if not (sub.get("may_raise") or sub.get("must_raise")):
                    if a.get("usable_prop"):
                        out.append({"prop": a["usable_prop"], "clause": "valid-continuation-works", "ok": False,
                                    "detail": f"step {sub['kind']} on {sub.get('targets')} raised {type(ex).__name__}: {str(ex)[:160]}", "method": "seq:" + sub["kind"]})
                        return out
                    raise
            if sub.get("must_raise"):
                prop = sub.get("raise_prop", "C05")
                out.append({"prop": prop, "clause": sub.get("raise_clause", "use-of-a-destroyed-subsystem-fails-with-an-error"),
                            "ok": raised is not None, "detail": "" if raised is not None else "the call returned normally",
                            "method": "seq:" + sub["kind"]})
                after = W2.snapshot(w, check=False)
                same = len(before.blocks) == len(after.blocks) and all(
                    b.members == c.members and b.level == c.level and (
                        (not hasattr(b.array, "shape") and b.array == c.array) or
                        (hasattr(b.array, "shape") and hasattr(c.array, "shape") and b.array.shape == c.array.shape and (b.array == c.array).all()))
                    for b, c in zip(before.blocks, after.blocks))
                out.append({"prop": prop, "clause": "rejected-use-leaves-every-block-unchanged", "ok": bool(same),
                            "detail": "" if same else "blocks differ after the rejected call", "method": "seq:" + sub["kind"]})
        return out
    if kind == "mzi":
        # exactly the construction of examples/mach_zehnder_interferometer.py, with the sampling recorded
        import jax.numpy as jnp
        from photon_weave.operation import CompositeOperationType, FockOperationType, Operation
        phi = float(a["phi"])
        env1, env2 = w.envs[0], w.envs[1]
        bs1 = Operation(CompositeOperationType.NonPolarizingBeamSplitter, eta=jnp.pi / 4)
        ps = Operation(FockOperationType.PhaseShift, phi=phi)
        bs2 = Operation(CompositeOperationType.NonPolarizingBeamSplitter, eta=jnp.pi / 4)
        ce = w.ces[0]
        ce.apply_operation(bs1, env1.fock, env2.fock)
        env1.fock.apply_operation(ps)
        ce.apply_operation(bs2, env1.fock, env2.fock)
        n0 = len(rec.draws)
        out1 = env1.fock.measure()
        out2 = env2.fock.measure()
        draws = [d for d in rec.draws[n0:] if d["p"] is not None and len(d["p"]) >= 2]
        want = np.sin(phi / 2) ** 2          # probability of finding the photon in the first output (this splitter convention)
        # the photon-number draw of the first output port is the one that is not a certain re-measurement of a label
        cand = [d for d in draws if abs(float(d["p"][1]) - want) <= 1e-8 and abs(float(d["p"][0]) - (1 - want)) <= 1e-8
                and float(np.sum(np.abs(d["p"][2:]))) <= 1e-8]
        certain = [d for d in draws if max(d["p"]) > 1 - 1e-9]
        ok = bool(cand) and len(cand) + len(certain) >= len(draws)
        draws = cand or [d for d in draws if max(d["p"]) <= 1 - 1e-9] or draws
        out.append({"prop": "C11", "clause": "mach-zehnder-output-probabilities-are-sin^2(phi/2)-and-cos^2(phi/2)", "ok": ok,
                    "detail": "" if ok else f"phi={phi}: sampled distribution {None if not draws else np.round(draws[0]['p'], 8).tolist()}, expected [{1 - want:.8f}, {want:.8f}]",
                    "method": "mach_zehnder"})
        o1, o2 = out1[env1.fock], out2[env2.fock]
        out.append({"prop": "C11", "clause": "exactly-one-photon-is-detected", "ok": o1 + o2 == 1, "detail": f"detected {o1} + {o2}", "method": "mach_zehnder"})
        return out
    if kind == "invalid":
        return invalid_request(a, w, rng, rec, tg)
    if kind == "trace_out":
        if entry == "self":
            tg[0].trace_out()
        elif entry == "env":
            tg[0].envelope.trace_out(*tg)
        else:
            W.ce_of(w, tg[0]).trace_out(*tg)
        return out
    if kind == "structural":
        what = a["what"]
        if entry == "self":
            getattr(tg[0], what)()
        elif entry == "env":
            env = tg[0].envelope
            if what == "reorder":
                env.reorder(*tg)
            else:
                getattr(env, what)()
        else:
            ce = W.ce_of(w, tg[0])
            getattr(ce, what)(*tg)
        return out
    if kind == "measure":
        fl = dict(a.get("flags", {}))
        if entry == "self":
            tg[0].measure(**fl)
        elif entry == "env":
            env = tg[0].envelope if tg else w.envs[a.get("env", 0)]
            if a.get("noargs"):
                env.measure(**fl)
            else:
                env.measure(*tg, **fl)
        else:
            W.ce_of(w, tg[0]).measure(*tg, **fl)
        return out
    if kind in ("povm", "kraus"):
        D = int(np.prod([W.dim_of(t) for t in tg]))
        o = a["ops"]
        if kind == "povm":
            ops = complete_set(D, o.get("n", 2), o.get("seed", 1), projective=o.get("projective", False))
        else:
            ops = named_channel(o["name"], D, o.get("seed", 1))
        ops = _J(ops)
        fl = dict(a.get("flags", {}))
        meth = "measure_POVM" if kind == "povm" else "apply_kraus"
        if entry == "self":
            getattr(tg[0], meth)(ops, **fl)
        elif entry == "env":
            fl.pop("partial", None)
            getattr(tg[0].envelope, meth)(ops, *tg, **fl)
        else:
            fl.pop("partial", None)
            getattr(W.ce_of(w, tg[0]), meth)(ops, *tg, **fl)
        return out
    if kind == "resize":
        nd = a["new"]
        if isinstance(nd, str):    # relative to the current dimension, e.g. "+2", "-1", "top" (= highest populated + 1)
            cur = W.dim_of(tg[0])
            nd = cur + int(nd)
        if entry == "self":
            tg[0].resize(nd)
        elif entry == "env":
            tg[0].envelope.resize_fock(nd)
        else:
            W.ce_of(w, tg[0]).resize_fock(nd, tg[0])
        return out
    raise ValueError("unknown action kind " + kind)


def invalid_request(a, w, rng, rec, tg):
    """C17: a request that cannot be honoured raises (or returns the documented failure value); afterwards the joint
    physical state is exactly what it was, the world is well formed, and a valid continuation works."""
    import jax.numpy as jnp
    from . import actions
    from .contracts import live_joint
    from photon_weave.operation import (CompositeOperationType, CustomStateOperationType, FockOperationType, Operation,
                                        PolarizationOperationType)
    what = a["what"]
    entry = a.get("entry", "self")
    before = W.snapshot(w)
    try:
        j0 = live_joint(w, before)
    except Exception:
        j0 = None
    x = tg[0] if tg else None
    ce = W.ce_of(w, x) if x is not None else None
    env = getattr(x, "envelope", None)
    raised, result = None, "<no result>"
    D = int(np.prod([W.dim_of(t) for t in tg])) if tg else 1

    def call(meth, *args, **kw):
        if entry == "self":
            return getattr(x, meth)(*args, **kw)
        if entry == "env":
            return getattr(env, meth)(*args, *tg, **kw) if meth != "apply_operation" else env.apply_operation(args[0], *tg)
        return getattr(ce, meth)(*args, *tg, **kw)
    try:
        if what == "kraus-not-trace-preserving":
            kt = a.get("ktype", "scaled")
            if kt == "scaled":
                bad_set = [0.5 * np.eye(D, dtype=complex), 0.5 * np.eye(D, dtype=complex)]
            else:
                K = np.eye(D, dtype=complex)
                if kt == "imaginary-overlap":       # K^dagger K = I + iA, A real antisymmetric: the real part is the identity
                    K[0, 1], K[1, 1] = 0.6j, 0.8
                elif kt == "real-overlap":
                    K[0, 1], K[1, 1] = 0.6, 0.8
                elif kt == "one-diagonal-entry":
                    K[D - 1, D - 1] = 0.9
                else:                                 # too large
                    K = 1.1 * K
                bad_set = [K]
            result = call("apply_kraus", _J(bad_set))
        elif what == "kraus-wrong-size":
            result = call("apply_kraus", _J(complete_set(D + 1, 2, 3)))
        elif what == "povm-wrong-size":
            result = call("measure_POVM", _J(complete_set(D + 1, 2, 3)))
        elif what == "custom-operator-wrong-size":
            fam = PolarizationOperationType if type(x).__name__ == "Polarization" else CustomStateOperationType if type(x).__name__ == "CustomState" else FockOperationType
            op = Operation(fam.Custom, operator=jnp.array(np.eye(W.dim_of(x) + 1, dtype=complex)))
            result = call("apply_operation", op)
        elif what == "wrong-kind-of-subsystem":
            op = Operation(PolarizationOperationType.X) if type(x).__name__ != "Polarization" else Operation(FockOperationType.Creation)
            result = call("apply_operation", op)
        elif what == "wrong-kind-with-used-operation":
            # the Operation object served a legitimate request before (on a scratch subsystem outside the world), so it carries
            # cached dimensions / operator of the same size as the wrongly addressed subsystem
            from . import harness
            L = W.lib()
            if type(x).__name__ != "Polarization":
                op, scratch = Operation(PolarizationOperationType.X), L.Polarization()
            else:
                op, scratch = Operation(FockOperationType.Creation), L.Fock()
            with harness.unchecked():
                scratch.apply_operation(op)
            result = call("apply_operation", op)
        elif what == "subsystem-outside-the-container":
            foreign = w.objs[a["foreign"]]
            op = Operation(PolarizationOperationType.X) if type(foreign).__name__ == "Polarization" else Operation(FockOperationType.PhaseShift, phi=0.3)
            if entry == "env":
                result = env.apply_operation(op, foreign)
            else:
                result = ce.apply_operation(op, foreign)
        elif what == "kraus-outside-the-container":
            foreign = w.objs[a["foreign"]]
            ops = _J(named_channel("dephasing", W.dim_of(foreign), 1))
            result = env.apply_kraus(ops, foreign) if entry == "env" else ce.apply_kraus(ops, foreign)
        elif what == "annihilate-the-vacuum":
            result = call("apply_operation", Operation(FockOperationType.Annihilation))
        elif what == "shrink-below-occupied-levels":
            nd = a["new"]
            if entry == "self":
                result = x.resize(nd)
            elif entry == "env":
                result = env.resize_fock(nd)
            else:
                result = ce.resize_fock(nd, x)
        elif what == "duplicate-kraus-targets":
            result = ce.apply_kraus(_J(complete_set(D * D, 2, 3)), x, x)
        else:
            raise ValueError("unknown invalid request " + what)
    except Exception as ex:
        raised = ex
    out = []
    rejected = raised is not None or (what == "shrink-below-occupied-levels" and result is False)
    out.append({"prop": "C17", "clause": "invalid-request-is-rejected", "ok": bool(rejected),
                "detail": "" if rejected else f"{what}: the call returned {str(result)[:60]!r} instead of raising / reporting failure", "method": what})
    after = W.snapshot(w)
    errs = [m for p_, m in after.errors if p_ in ("C07", "C13", "C05")]
    out.append({"prop": "C17", "clause": "world-is-well-formed-after-the-rejected-call", "ok": not errs, "detail": "; ".join(errs[:3]), "method": what})
    if j0 is not None:
        try:
            rho1, dims1, names1 = live_joint(w, after)
            rho0, dims0, names0 = j0
            if names1 != names0:
                out.append({"prop": "C17", "clause": "joint-state-unchanged-after-the-rejected-call", "ok": False, "detail": f"live subsystems {names0} -> {names1}", "method": what})
            else:
                p0 = W.pad_rho(rho0, dims0, dims1) if dims0 != dims1 else rho0
                ok = p0 is not None and p0.shape == rho1.shape and float(np.max(np.abs(p0 - rho1))) <= 1e-8
                out.append({"prop": "C17", "clause": "joint-state-unchanged-after-the-rejected-call", "ok": bool(ok),
                            "detail": "" if ok else (f"max deviation {float(np.max(np.abs(p0 - rho1))):.3g}" if p0 is not None and p0.shape == rho1.shape else f"dims {dims0} -> {dims1}"),
                            "method": what})
        except Exception as ex:
            out.append({"prop": "C17", "clause": "joint-state-unchanged-after-the-rejected-call", "ok": False, "detail": f"joint state unreadable: {ex}", "method": what})
    # valid continuation
    for sub in a.get("then", []):
        try:
            out += actions.perform(sub, w, rng, rec) or []
            out.append({"prop": "C17", "clause": "valid-continuation-works", "ok": True, "detail": "", "method": what})
        except Exception as ex:
            out.append({"prop": "C17", "clause": "valid-continuation-works", "ok": False, "detail": f"{type(ex).__name__}: {ex}", "method": what})
    return out
