"""Cell generators for apply_operation (C01, C03 and the invariant / frame properties)."""
from __future__ import annotations

import math
from typing import Any, Dict, List

from . import layouts as LY

FOCK_OPS = [
    ("Creation", {}), ("Annihilation", {}), ("PhaseShift", {"phi": 0.7}), ("PhaseShift", {"phi": -7.3}),
    ("Displace", {"alpha": {"re": 0.3, "im": -0.4}}), ("Squeeze", {"zeta": {"re": -0.2, "im": 0.3}}),
    ("Identity", {}),
    ("Expresion", {"expr": ["expm", ["s_mult", {"re": 0, "im": 1}, 0.4, "n"]], "context": "ladder"}),
]
POL_OPS = [
    ("X", {}), ("Y", {}), ("Z", {}), ("H", {}), ("S", {}), ("T", {}), ("SX", {}),
    ("RX", {"theta": 0.3}), ("RY", {"theta": -1.1}), ("RZ", {"theta": 7.9}),
    ("U3", {"phi": 0.5, "theta": 1.2, "omega": -0.8}), ("Custom", {"operator": {"unitary": 11}}),
    ("Custom", {"operator": {"nonunitary": 12}}),
]
CUSTOM_OPS = [
    ("Custom", {"operator": {"unitary": 21}}), ("Custom", {"operator": {"nonunitary": 22}}),
    ("Expresion", {"expr": ["expm", ["s_mult", {"re": 0, "im": 1}, "g"]], "context": "custom"}),
]


def single_target_cells(tier: str, seed: int) -> List[Dict[str, Any]]:
    cells = []
    quick = tier == "quick"
    plan = [("e0.f", "Fock", FOCK_OPS), ("e0.p", "Polarization", POL_OPS), ("c0", "Custom", CUSTOM_OPS)]
    for target, fam, ops in plan:
        structs = [s for s in LY.STRUCTS if True]
        for si, (tag, blocks) in enumerate(structs):
            kind, mem = LY.block_of(blocks, target)
            # standalone (no composite) variants only for the 'own' / env structures without other members
            for ltag, levels, dl in LY.level_settings(blocks, [target], tier):
                for oi, (typ, params) in enumerate(ops):
                    # quick tier: rotate operations over structures instead of the full product
                    if quick and (oi + si) % 4 != 0 and not (tag in ("own", "env01", "ps:f0,p1", "ps:c0,p0,f1") and ltag in ("V", "M")):
                        continue
                    for contraction in ((True, False) if (not quick or (oi + si) % 3 == 0) else (True,)):
                        if ltag == "M":
                            cls_opts = ["mixed"] if quick else ["mixed", "pure", "degenerate", "classical"]
                        elif ltag == "L":
                            cls_opts = ["basis"]
                        else:
                            cls_opts = ["pure"] if quick else ["pure", "neg", "product", "ghz"]
                        for cls in cls_opts:
                            entries = ["self", "ce"] if fam == "Custom" else ["self", "env", "ce"]
                            for ei, entry in enumerate(entries):
                                if quick and (oi + si + ei) % 3 != 0:
                                    continue
                                spec = LY.make_spec(blocks, levels, {}, default_level=dl, default_cls=cls,
                                                    bystander=(si % 5 == 2))
                                cells.append({
                                    "world": spec, "layout": tag, "levels": ltag, "cls": cls, "contraction": contraction, "seed": seed,
                                    "target_store": kind, "reordered": kind != "own" and mem[0] != target,
                                    "action": {"kind": "op", "entry": entry, "fam": fam, "type": typ, "params": params,
                                               "targets": [LY.rename(spec, target)]}})
    # standalone subsystems (no composite envelope at all)
    for target, fam, ops in plan:
        for oi, (typ, params) in enumerate(ops):
            for lv, cls in (("L", "basis"), ("V", "pure"), ("M", "mixed")):
                for contraction in (True, False):
                    if quick and (oi + contraction) % 2:
                        continue
                    if fam == "Custom":
                        spec = LY.make_spec([], {}, {}, envs=(), customs=("c0",), composite=False, default_level=lv, default_cls=cls)
                        variants = [("alone", spec, "self")]
                    else:
                        spec = LY.make_spec([], {}, {}, envs=("e0",), customs=(), composite=False, default_level=lv, default_cls=cls)
                        variants = [("alone", spec, "self"), ("alone", spec, "env")]
                        if lv != "L":
                            for order, tg2 in ((["e0.f", "e0.p"], "envalone01"), (["e0.p", "e0.f"], "envalone10")):
                                sp2 = LY.make_spec([("env", order)], {order[0]: lv}, {order[0]: cls}, envs=("e0",), customs=(), composite=False)
                                variants += [(tg2, sp2, "self"), (tg2, sp2, "env")]
                    for tag, sp, entry in variants:
                        cells.append({"world": sp, "layout": tag, "levels": lv, "cls": cls, "contraction": contraction, "seed": seed,
                                      "target_store": "own" if tag == "alone" else "env", "reordered": tag.endswith("10"),
                                      "action": {"kind": "op", "entry": entry, "fam": fam, "type": typ, "params": params,
                                                 "targets": [LY.rename(sp, target)]}})
    return cells


I1 = {"re": 0, "im": 1}
PAIR_OPS = [   # (type, params, operand kinds)
    ("CXPolarization", {}, "pp"), ("CZPolarization", {}, "pp"), ("SwapPolarization", {}, "pp"),
    ("NonPolarizingBeamSplitter", {"eta": 0.6}, "ff"), ("NonPolarizingBeamSplitter", {"eta": -2.9}, "ff"),
    ("Expression", {"expr": ["kron", ["expm", ["s_mult", I1, 0.3, "n0"]], "h"], "state_types": ["Fock", "Polarization"], "context": "two"}, "fp"),
    ("Expression", {"expr": ["kron", "x", ["expm", ["s_mult", I1, -0.8, "n1"]]], "state_types": ["Polarization", "Fock"], "context": "two"}, "pf"),
    ("Expression", {"expr": ["expm", ["s_mult", I1, 0.4, ["kron", "z", "gc1"]]], "state_types": ["Polarization", "CustomState"], "context": "twoc"}, "pc"),
]
TRIPLE_OPS = [
    ("CSwapPolarization", {}, "ppp"),
    ("Expression", {"expr": ["kron", "x", "h", "z"], "state_types": ["Polarization", "Polarization", "Polarization"], "context": "three"}, "ppp"),
    ("Expression", {"expr": ["expm", ["s_mult", I1, 0.5, ["kron", "z", "gc1", "x"]]],
                    "state_types": ["Polarization", "CustomState", "Polarization"], "context": "threec"}, "pcp"),
]


def _operands(kinds: str, three: bool):
    import itertools
    pools = {"p": ["e0.p", "e1.p"] + (["e2.p"] if three else []), "f": ["e0.f", "e1.f"], "c": ["c0"]}
    outs = []
    for combo in itertools.product(*[pools[k] for k in kinds]):
        if len(set(combo)) == len(combo):
            outs.append(list(combo))
    return outs


def multi_target_cells(tier: str, seed: int):
    cells = []
    quick = tier == "quick"
    n = 0
    for three, structs, ops in ((False, LY.STRUCTS, PAIR_OPS), (True, LY.STRUCTS3, TRIPLE_OPS)):
        envs = ("e0", "e1", "e2") if three else ("e0", "e1")
        for si, (tag, blocks) in enumerate(structs):
            for oi, (typ, params, kinds) in enumerate(ops):
                for ti, targets in enumerate(_operands(kinds, three)):
                    for ltag, levels, dl in LY.level_settings(blocks, targets, tier):
                        n += 1
                        if quick and n % 3 != 0:
                            continue
                        if ltag == "M":
                            cls_opts = ["mixed"] if quick else ["mixed", "pure"]
                        elif ltag == "L":
                            cls_opts = ["basis"]
                        else:
                            cls_opts = ["pure"] if quick else ["pure", "neg"]
                        for cls in cls_opts:
                            for contraction in ((True, False) if (not quick or n % 2 == 0) else (True,)):
                                spec = LY.make_spec(blocks, levels, {}, envs=envs, default_level=dl, default_cls=cls,
                                                    bystander=(not three and si % 4 == 1),
                                                    fock_dims=({"e0": 2, "e1": 2, "e2": 2} if three else None))
                                stores = sorted({LY.block_of(blocks, t)[0] for t in targets})
                                cells.append({
                                    "world": spec, "layout": tag, "levels": ltag, "cls": cls, "contraction": contraction, "seed": seed,
                                    "target_store": "+".join(stores), "reordered": True, "ntargets": len(targets),
                                    "action": {"kind": "op", "entry": "ce", "fam": "Composite", "type": typ, "params": params,
                                               "targets": [LY.rename(spec, t) for t in targets]}})
    return cells


def autodim_cells(tier: str, seed: int):
    """C10 (automatic dimension): displacement / squeezing / expression with complex parameters of any phase, ladder,
    phase and beam-splitter operations on basis, superposed, entangled and mixed inputs."""
    import math
    cells = []
    quick = tier == "quick"
    params = []
    mags = (0.3, 1.0) if quick else (0.1, 0.5, 1.0, 1.6, 2.0)
    nph = 4 if quick else 8
    for m in mags:
        for k in range(nph):
            ph = 2 * math.pi * k / nph
            params.append(("Displace", {"alpha": {"re": round(m * math.cos(ph), 6), "im": round(m * math.sin(ph), 6)}}))
    for m in ((0.2, 0.6) if quick else (0.1, 0.4, 0.8, 1.2)):
        for k in range(nph):
            ph = 2 * math.pi * k / nph
            params.append(("Squeeze", {"zeta": {"re": round(m * math.cos(ph), 6), "im": round(m * math.sin(ph), 6)}}))
    params += [("Creation", {}), ("Annihilation", {}), ("PhaseShift", {"phi": 2.1}),
               ("Expresion", {"expr": ["expm", ["s_mult", {"re": 0, "im": 1}, 0.4, "n"]], "context": "ladder"}),
               ("Expresion", {"expr": ["expm", ["s_mult", 0.3, ["sub", "ad", "a"]]], "context": "ladder"})]
    n = 0
    for typ, pr in params:
        for lv, cls, label in (("L", "basis", 0), ("L", "basis", 1), ("V", "pure", None), ("M", "mixed", None), ("V", "basis", None)):
            if typ == "Annihilation" and label == 0:
                continue
            n += 1
            spec = LY.make_spec([], {}, {}, envs=("e0",), customs=(), composite=False, default_level=lv, default_cls=cls,
                                labels={"e0.f": label if label is not None else 1}, fock_dims={"e0": 3})
            cells.append({"world": spec, "layout": "alone", "levels": lv, "cls": cls, "contraction": bool(n % 2), "seed": seed,
                          "variant": f"label{label}", "action": {"kind": "op", "entry": "self", "fam": "Fock", "type": typ, "params": pr, "targets": ["e0.f"]}})
        if quick and n % 3:
            continue
        for tag, blocks in (("ps:f0,p1", [("ps", ["e0.f", "e1.p"])]), ("env10", [("env", ["e0.p", "e0.f"])]), ("ps:c0,p0,f1|f0", [("ps", ["c0", "e0.p", "e1.f"])])):
            for lv, cls in (("V", "pure"), ("M", "mixed")):
                spec = LY.make_spec(blocks, {b[1][0]: lv for b in blocks}, {}, default_level=lv, default_cls=cls)
                cells.append({"world": spec, "layout": tag, "levels": lv, "cls": cls, "contraction": True, "seed": seed, "reordered": True,
                              "action": {"kind": "op", "entry": "ce", "fam": "Fock", "type": typ, "params": pr, "targets": [LY.rename(spec, "e0.f")]}})
    for eta in (0.3, -1.2, 2.5):
        for lab0, lab1 in ((1, 0), (2, 1), (0, 0), (1, 1)):
            spec = LY.make_spec([], {}, {}, default_level="L", default_cls="basis", labels={"e0.f": lab0, "e1.f": lab1})
            cells.append({"world": spec, "layout": "own", "levels": "L", "cls": "basis", "contraction": True, "seed": seed, "variant": f"{lab0}{lab1}",
                          "action": {"kind": "op", "entry": "ce", "fam": "Composite", "type": "NonPolarizingBeamSplitter", "params": {"eta": eta},
                                     "targets": [LY.rename(spec, "e0.f"), LY.rename(spec, "e1.f")]}})
        for tag, blocks in (("ps:f1,f0", [("ps", ["e1.f", "e0.f"])]), ("ps:f0,p1", [("ps", ["e0.f", "e1.p"])])):
            for lv, cls in (("V", "pure"), ("M", "mixed")):
                spec = LY.make_spec(blocks, {b[1][0]: lv for b in blocks}, {}, default_level=lv, default_cls=cls)
                cells.append({"world": spec, "layout": tag, "levels": lv, "cls": cls, "contraction": True, "seed": seed, "reordered": True,
                              "action": {"kind": "op", "entry": "ce", "fam": "Composite", "type": "NonPolarizingBeamSplitter", "params": {"eta": eta},
                                         "targets": [LY.rename(spec, "e0.f"), LY.rename(spec, "e1.f")]}})
    return cells


def optics_cells(tier: str, seed: int):
    """C11: beam splitters and phase shifters on number states, superpositions, mixtures, modes entangled with
    polarization or a third mode; cascades; Mach-Zehnder."""
    import math
    cells = []
    quick = tier == "quick"
    etas = (0.4, -2.9, math.pi / 4) if quick else (0.4, -2.9, math.pi / 4, 1.3, 7.0, -0.05)
    BS = lambda eta, a, b: {"kind": "op", "entry": "ce", "fam": "Composite", "type": "NonPolarizingBeamSplitter", "params": {"eta": eta}, "targets": [a, b]}
    PS = lambda phi, a: {"kind": "op", "entry": "self", "fam": "Fock", "type": "PhaseShift", "params": {"phi": phi}, "targets": [a]}
    n = 0
    for eta in etas:
        for la, lb in ((1, 0), (2, 1), (0, 2), (1, 1), (0, 0)):
            spec = LY.make_spec([], {}, {}, default_level="L", default_cls="basis", labels={"e0.f": la, "e1.f": lb})
            for tg in (["e0.f", "e1.f"], ["e1.f", "e0.f"]):
                cells.append({"world": spec, "layout": "own", "levels": "L", "cls": "basis", "contraction": bool(n % 2), "seed": seed, "variant": f"|{la},{lb}>",
                              "reordered": tg[0] != "e0.f", "action": BS(eta, *[LY.rename(spec, t) for t in tg])})
                n += 1
        for tag, blocks in (("ps:f1,f0", [("ps", ["e1.f", "e0.f"])]), ("ps:f0,p1", [("ps", ["e0.f", "e1.p"])]), ("env01+env1", [("env", ["e0.f", "e0.p"]), ("env", ["e1.p", "e1.f"])]),
                            ("ps:f0,f1|p0,p1", [("ps", ["e0.f", "e1.f"]), ("ps", ["e0.p", "e1.p"])]), ("ps:f1,c0,f0,p1", [("ps", ["e1.f", "c0", "e0.f", "e1.p"])])):
            for lv, clss in (("V", ["pure", "lowfock"]), ("M", ["mixed", "mixedlow"])):
                for cls in clss:
                    n += 1
                    if quick and n % 2:
                        continue
                    spec = LY.make_spec(blocks, {b[1][0]: lv for b in blocks}, {}, default_level=lv, default_cls=cls, fock_dims={"e0": 3, "e1": 3})
                    cells.append({"world": spec, "layout": tag, "levels": lv, "cls": cls, "contraction": bool(n % 3), "seed": seed, "reordered": True,
                                  "action": BS(eta, LY.rename(spec, "e0.f"), LY.rename(spec, "e1.f"))})
                    cells.append({"world": spec, "layout": tag, "levels": lv, "cls": cls, "contraction": bool(n % 3), "seed": seed, "reordered": True,
                                  "action": PS(eta * 1.7, LY.rename(spec, "e1.f"))})
    # cascades on three modes (interferometer meshes)
    for k, (lv, cls) in enumerate((("L", "basis"), ("V", "pure"), ("M", "mixed"))):
        for labels in ({"e0.f": 1, "e1.f": 0, "e2.f": 1}, {"e0.f": 2, "e1.f": 0, "e2.f": 0}):
            spec = LY.make_spec([], {}, {}, envs=("e0", "e1", "e2"), customs=(), default_level=lv, default_cls=cls, labels=labels,
                                fock_dims={"e0": 3, "e1": 3, "e2": 3})
            R = lambda m: LY.rename(spec, m)
            steps = [BS(0.7, R("e0.f"), R("e1.f")), PS(1.1, R("e1.f")), BS(-0.4, R("e1.f"), R("e2.f")), BS(2.2, R("e2.f"), R("e0.f"))]
            cells.append({"world": spec, "layout": "own3", "levels": lv, "cls": cls, "contraction": True, "seed": seed, "variant": "cascade" + "".join(str(v) for v in labels.values()),
                          "reordered": True, "action": {"kind": "seq", "steps": steps, "targets": [], "entry": "seq", "fam": "Composite", "type": "cascade"}})
    nph = 16 if quick else 64
    for k in range(nph):
        phi = 2 * math.pi * k / nph * 1.5 - 1.0
        spec = LY.make_spec([], {}, {}, customs=(), default_level="L", default_cls="basis", labels={"e0.f": 1, "e1.f": 0}, fock_dims={"e0": None, "e1": None})
        cells.append({"world": spec, "layout": "own", "levels": "L", "cls": "basis", "contraction": True, "seed": seed, "variant": f"mzi{k}",
                      "action": {"kind": "mzi", "phi": phi, "entry": "ce", "fam": "Composite", "type": "MachZehnder", "targets": []}})
    return cells
