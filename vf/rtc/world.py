"""Engine B ghost state: worlds, blocks, view, well_formed (DESIGN 4.1 + appendix D).

A *world* is the set of envelopes, custom states and composite-envelope handles a cell created.
Structure is built with the library's structural API on label states; amplitudes are then
overwritten with the cell's state class (a contract quantifies over all states satisfying the
representation invariant).
"""
from __future__ import annotations

import math
from dataclasses import dataclass, field
from typing import Any, Dict, List, Optional, Tuple

import numpy as np

TOL = 1e-9


def lib():
    """Lazy import of the library under test (so that VERIF_REPO is honoured)."""
    from vf import common
    common.use_repo()
    import jax
    jax.config.update("jax_enable_x64", True)
    import jax.numpy as jnp
    from photon_weave.photon_weave import Config
    from photon_weave.state.composite_envelope import CompositeEnvelope, ProductState
    from photon_weave.state.custom_state import CustomState
    from photon_weave.state.envelope import Envelope
    from photon_weave.state.expansion_levels import ExpansionLevel
    from photon_weave.state.fock import Fock
    from photon_weave.state.polarization import Polarization, PolarizationLabel

    class L:
        pass
    L.jax, L.jnp, L.Config = jax, jnp, Config
    L.CompositeEnvelope, L.ProductState, L.CustomState, L.Envelope = CompositeEnvelope, ProductState, CustomState, Envelope
    L.ExpansionLevel, L.Fock, L.Polarization, L.PolarizationLabel = ExpansionLevel, Fock, Polarization, PolarizationLabel
    return L


LEVELS = {"L": 0, "V": 1, "M": 2}


class World:
    """Live objects of one cell."""

    def __init__(self):
        self.envs: List[Any] = []
        self.customs: List[Any] = []
        self.ces: List[Any] = []
        self.names: Dict[int, str] = {}
        self.objs: Dict[str, Any] = {}
        self.order: List[str] = []       # canonical order of subsystem names

    def add(self, name: str, obj: Any) -> None:
        self.names[id(obj)] = name
        self.objs[name] = obj
        self.order.append(name)

    def name(self, obj) -> str:
        return self.names.get(id(obj), f"<foreign {type(obj).__name__}>")

    def subsystems(self):
        return [self.objs[n] for n in self.order]

    def live(self):
        return [n for n in self.order if not bool(self.objs[n].measured)]


# ------------------------------------------------------------------------------------------------
def build_world(spec: Dict[str, Any], rng: np.random.Generator):
    """spec = {
         "envs": [fock_dim, ...], "customs": [dim, ...],
         "composites": [[member names: "e0","c0",...], ...],
         "blocks": [{"kind": "own"|"env"|"ps", "members": ["e0.f","e0.p"...], "level": "L"|"V"|"M", "cls": state class}, ...]
       }
    Every subsystem must appear in exactly one block.  Returns (world, builder_errors)."""
    L = lib()
    jnp = L.jnp
    w = World()
    for i, d in enumerate(spec["envs"]):
        e = L.Envelope()
        if d is not None:
            e.fock.dimensions = d
        w.envs.append(e)
        w.add(f"e{i}.f", e.fock)
        w.add(f"e{i}.p", e.polarization)
    for i, d in enumerate(spec.get("customs", [])):
        c = L.CustomState(d)
        w.customs.append(c)
        w.add(f"c{i}", c)
    for grp in spec.get("composites", []):
        members = [w.envs[int(m[1:])] if m[0] == "e" else w.customs[int(m[1:])] for m in grp]
        w.ces.append(L.CompositeEnvelope(*members))
    errs: List[str] = []
    # 1. structure
    for b in spec["blocks"]:
        mem = [w.objs[m] for m in b["members"]]
        lvl = b["level"]
        if b["kind"] == "own":
            x = mem[0]
            if lvl in ("V", "M"):
                x.expand()
            if lvl == "M":
                x.expand()
        elif b["kind"] == "env":
            env = mem[0].envelope
            env.combine()
            env.reorder(*mem)
            if lvl == "M":
                env.expand()
        elif b["kind"] == "ps":
            ce = ce_of(w, mem[0])
            ce.combine(*mem)
            ce.reorder(*mem)
            if lvl == "M":
                ps = ps_of(mem[0])
                ps.expand()
    # 2. amplitudes
    for b in spec["blocks"]:
        mem = [w.objs[m] for m in b["members"]]
        dims = [dim_of(x) for x in mem]
        D = int(np.prod(dims))
        lvl = b["level"]
        arr = make_state(b.get("cls", "basis"), dims, lvl, rng, b.get("label"))
        if b["kind"] == "own":
            x = mem[0]
            if lvl == "L":
                lab = b.get("label", 0)
                if isinstance(x, L.Polarization):
                    x.state = [L.PolarizationLabel.H, L.PolarizationLabel.V][lab]
                else:
                    x.state = int(lab)
            else:
                x.state = jnp.array(arr)
        elif b["kind"] == "env":
            mem[0].envelope.state = jnp.array(arr)
        else:
            ps_of(mem[0]).state = jnp.array(arr)
    # Reachable internal variant: an envelope that was combined, absorbed into a composite product space and whose members
    # were then measured non-destructively holds no state but still carries the level it cached while combined
    # (CompositeEnvelope.combine does not reset Envelope._expansion_level).  Contracts must hold from such pre-states too.
    stale = spec.get("stale_level_cache")
    if stale:
        for e in w.envs:
            if e.state is None:
                e._expansion_level = L.ExpansionLevel.Vector if stale == "V" else L.ExpansionLevel.Matrix
    return w, errs


def ce_of(w: World, x):
    ce = getattr(x, "composite_envelope", None)
    if ce is None and getattr(x, "envelope", None) is not None:
        ce = x.envelope.composite_envelope
    if ce is None:
        for c in w.ces:
            if any(s is x for s in c.state_objs):
                return c
    return ce


def ps_of(x):
    L = lib()
    ce = x.composite_envelope
    cont = L.CompositeEnvelope._containers[ce.uid]
    return cont.states[x.index[0]]


def dim_of(x) -> int:
    d = int(x.dimensions)
    if d < 0:
        # Fock with unset cut-off: label + 3 is what the library will choose on expansion
        return int(x.state) + 3 if isinstance(x.state, int) else 1
    return d


def make_state(cls: str, dims: List[int], lvl: str, rng, label=None):
    """Returns an ndarray: (D,1) for V, (D,D) for M, None for L."""
    D = int(np.prod(dims))
    if lvl == "L":
        return None

    def rvec(d):
        v = rng.normal(size=d) + 1j * rng.normal(size=d)
        return v / np.linalg.norm(v)

    if cls == "basis":
        if label is not None:
            k = int(label)
        else:   # one quantum in every Fock / custom factor, H for polarizations
            k = int(np.ravel_multi_index([1 if d > 2 else 0 for d in dims], dims))
        v = np.zeros(D, dtype=complex)
        v[k] = 1
    elif cls == "pure":
        v = rvec(D)
    elif cls == "neg":
        v = rng.normal(size=D).astype(complex)
        v[0] = -abs(v[0]) - 0.1
        v = v / np.linalg.norm(v)
    elif cls == "product":
        v = np.array([1.0 + 0j])
        for d in dims:
            v = np.kron(v, rvec(d))
    elif cls == "lowfock":
        # generic entangled state whose Fock factors leave the top level empty (room for +1 operators)
        t = (rng.normal(size=dims) + 1j * rng.normal(size=dims))
        for ax, d in enumerate(dims):
            if d > 2:
                sl = [slice(None)] * len(dims)
                sl[ax] = d - 1
                t[tuple(sl)] = 0
        v = t.reshape(-1)
        v = v / np.linalg.norm(v)
    elif cls == "nearbasis":
        # within 1e-6 of a basis vector in its leading amplitude, but with another amplitude of 1e-3: NOT a basis state
        v = np.zeros(D, dtype=complex)
        k = int(np.ravel_multi_index([1 if d > 2 else 0 for d in dims], dims))
        eps = 1e-3
        v[k] = np.sqrt(1 - eps ** 2)
        v[(k + 1) % D] = eps * np.exp(0.7j)
    elif cls == "ghz":
        # sum_k c_k |k mod d_1, ..., k mod d_r>: every reduced state is DIAGONAL (no coherences between levels), complex c_k.
        # Stresses code that looks at one column / the off-diagonals of a reduced density matrix.
        t = np.zeros(dims, dtype=complex)
        K = max(dims)
        for k in range(K):
            t[tuple(k % d for d in dims)] += (rng.uniform(0.4, 1.0)) * np.exp(2j * np.pi * rng.uniform())
        v = t.reshape(-1)
        v = v / np.linalg.norm(v)
    elif cls in ("mixed", "degenerate", "nearpure", "mixedlow", "classical"):
        v = None
    else:
        raise ValueError(cls)
    if v is not None:
        if lvl == "V":
            return v.reshape(-1, 1)
        return np.outer(v, v.conj())
    if lvl != "M":
        raise ValueError("mixed state classes need level M")
    if cls == "mixed":
        A = rng.normal(size=(D, D)) + 1j * rng.normal(size=(D, D))
        rho = A @ A.conj().T
    elif cls == "mixedlow":
        keep = np.ones(dims, dtype=bool)
        for ax, d in enumerate(dims):
            if d > 2:
                sl = [slice(None)] * len(dims)
                sl[ax] = d - 1
                keep[tuple(sl)] = False
        k = keep.reshape(-1)
        A = rng.normal(size=(D, D)) + 1j * rng.normal(size=(D, D))
        A[~k, :] = 0
        rho = A @ A.conj().T
    elif cls == "classical":
        # classical mixture of correlated basis states: a diagonal density matrix
        p = np.zeros(D)
        K = max(dims)
        for k in range(K):
            p[int(np.ravel_multi_index([k % d for d in dims], dims))] += rng.uniform(0.3, 1.0)
        rho = np.diag(p).astype(complex)
    elif cls == "degenerate":
        U = np.linalg.qr(rng.normal(size=(D, D)) + 1j * rng.normal(size=(D, D)))[0]
        ev = np.zeros(D)
        ev[:2] = 0.5 if D >= 2 else 1.0
        rho = U @ np.diag(ev) @ U.conj().T
    else:  # nearpure: purity within the library's 1e-6 tolerance
        v = rvec(D)
        w2 = rvec(D)
        rho = (1 - 1e-8) * np.outer(v, v.conj()) + 1e-8 * np.outer(w2, w2.conj())
    rho = (rho + rho.conj().T) / 2
    return rho / np.trace(rho).real


# ------------------------------------------------------------------------------------------------
@dataclass
class Block:
    kind: str                  # own | env | ps
    owner: int                 # id() of the storing object
    members: List[str]
    dims: List[int]
    level: Optional[int]       # 0/1/2
    array: Any                 # np.ndarray copy, or label (int / 'H' / 'V' / 'R' / 'L')
    array_id: int = 0
    where: str = ""


@dataclass
class Snapshot:
    blocks: List[Block] = field(default_factory=list)
    errors: List[Tuple[str, str]] = field(default_factory=list)      # (property, message)
    sub: Dict[str, Dict[str, Any]] = field(default_factory=dict)
    live: List[str] = field(default_factory=list)

    def block_of(self, name: str) -> Optional[Block]:
        for b in self.blocks:
            if name in b.members:
                return b
        return None


def _np(a):
    return np.array(a, dtype=complex)


def snapshot(w: World, check: bool = True) -> Snapshot:
    """blocks(W) + the well_formed(W) predicate (C07 part and C13 part); never raises."""
    L = lib()
    s = Snapshot()
    err = s.errors.append
    seen_owner: Dict[int, Block] = {}
    claimed: Dict[str, int] = {}
    for n in w.order:
        x = w.objs[n]
        try:
            measured = bool(x.measured)
        except Exception as ex:   # pragma: no cover
            err(("C13", f"{n}: measured flag unreadable: {ex}"))
            measured = False
        idx = getattr(x, "index", None)
        lvl = x.expansion_level
        st = x.state
        s.sub[n] = {"measured": measured, "index": idx if idx is None else (idx if isinstance(idx, int) else tuple(idx)),
                    "level": None if lvl is None else int(lvl), "dims": int(x.dimensions),
                    "state_kind": ("none" if st is None else "label" if not hasattr(st, "shape") else "array")}
        if measured:
            if check:
                if st is not None:
                    err(("C05", f"{n}: destroyed subsystem still holds a state"))
                if idx is not None:
                    err(("C05", f"{n}: destroyed subsystem still has index {idx}"))
            continue
        s.live.append(n)
        if idx is None:
            if st is None:
                err(("C13", f"{n}: index is None but the subsystem holds no state (stored nowhere)"))
                continue
            dims = [dim_of(x)]
            if hasattr(st, "shape"):
                b = Block("own", id(x), [n], dims, None if lvl is None else int(lvl), _np(st), id(st), n)
            else:
                lab = st.value if hasattr(st, "value") else int(st)
                b = Block("own", id(x), [n], dims, None if lvl is None else int(lvl), lab, 0, n)
            s.blocks.append(b)
            claimed[n] = claimed.get(n, 0) + 1
        elif isinstance(idx, int):
            env = getattr(x, "envelope", None)
            if env is None:
                err(("C13", f"{n}: integer index {idx} but no envelope"))
                continue
            if st is not None:
                err(("C13", f"{n}: index {idx} names the envelope but the subsystem also holds its own state"))
            if id(env) not in seen_owner:
                mem = [env.fock, env.polarization]
                try:
                    mem = sorted(mem, key=lambda m: m.index)
                    names = [w.name(m) for m in mem]
                    if [m.index for m in mem] != [0, 1]:
                        err(("C13", f"envelope of {n}: member indices are {[m.index for m in mem]}, expected 0 and 1"))
                except TypeError:
                    names = [w.name(m) for m in mem]
                    err(("C13", f"envelope of {n}: members disagree on being combined: indices {[m.index for m in mem]}"))
                if env.state is None:
                    err(("C13", f"{n}: index {idx} names the envelope product state but the envelope holds none"))
                    seen_owner[id(env)] = None
                    continue
                el = env.expansion_level
                b = Block("env", id(env), names, [dim_of(m) for m in mem], None if el is None else int(el),
                          _np(env.state), id(env.state), "env(" + ",".join(names) + ")")
                seen_owner[id(env)] = b
                s.blocks.append(b)
            if seen_owner.get(id(env)) is not None and n in seen_owner[id(env)].members:
                claimed[n] = claimed.get(n, 0) + 1
        else:
            try:
                k, i = idx
                ce = x.composite_envelope
                cont = L.CompositeEnvelope._containers[ce.uid]
                ps = cont.states[k]
                if not (0 <= i < len(ps.state_objs)) or ps.state_objs[i] is not x:
                    raise LookupError(f"product space {k} position {i} does not hold this subsystem")
            except Exception as ex:
                err(("C13", f"{n}: index {idx} does not name its storage place: {type(ex).__name__}: {ex}"))
                # try to find it anyway so that the physics can still be compared
                ps = _find_ps(L, x)
                if ps is None:
                    continue
            if st is not None:
                err(("C13", f"{n}: stored in a product space but also holds its own state"))
            if id(ps) not in seen_owner:
                names = [w.name(m) for m in ps.state_objs]
                b = Block("ps", id(ps), names, [dim_of(m) for m in ps.state_objs], int(ps.expansion_level),
                          _np(ps.state), id(ps.state), "ps(" + ",".join(names) + ")")
                seen_owner[id(ps)] = b
                s.blocks.append(b)
            claimed[n] = claimed.get(n, 0) + 1
    if check:
        for n in s.live:
            if claimed.get(n, 0) != 1:
                err(("C13", f"{n}: stored in {claimed.get(n, 0)} places"))
        _check_blocks(L, w, s)
        _check_graph(L, w, s)
    return s


def _find_ps(L, x):
    for cont in list(L.CompositeEnvelope._containers.values()):
        for ps in cont.states:
            if any(m is x for m in ps.state_objs):
                return ps
    return None


def _check_blocks(L, w: World, s: Snapshot) -> None:
    err = s.errors.append
    for b in s.blocks:
        D = int(np.prod(b.dims))
        lv = b.level
        if b.kind == "own":
            x = w.objs[b.members[0]]
            if not isinstance(b.array, np.ndarray):
                if lv != 0:
                    err(("C07", f"{b.where}: holds a label but reports expansion level {lv}"))
                if isinstance(b.array, int):
                    if b.array < 0 or (int(x.dimensions) > 0 and b.array >= int(x.dimensions)):
                        err(("C07", f"{b.where}: label {b.array} outside the space of dimension {x.dimensions}"))
                continue
        else:
            for m in b.members:
                ml = s.sub[m]["level"]
                if ml != lv:
                    err(("C07", f"{b.where}: member {m} reports level {ml}, block is at level {lv}"))
        a = b.array
        if lv == 1:
            if a.shape != (D, 1):
                err(("C07", f"{b.where}: level Vector but array shape {a.shape}, expected {(D, 1)}"))
                continue
            nrm = float(np.linalg.norm(a))
            if abs(nrm - 1) > 1e-7 or not np.all(np.isfinite(a)):
                err(("C07", f"{b.where}: state vector has norm {nrm:.9g}"))
        elif lv == 2:
            if a.shape != (D, D):
                err(("C07", f"{b.where}: level Matrix but array shape {a.shape}, expected {(D, D)}"))
                continue
            if not np.all(np.isfinite(a)):
                err(("C07", f"{b.where}: density matrix has non-finite entries"))
                continue
            tr = np.trace(a)
            if abs(tr - 1) > 1e-7:
                err(("C07", f"{b.where}: density matrix has trace {tr:.9g}"))
            if np.max(np.abs(a - a.conj().T)) > 1e-7:
                err(("C07", f"{b.where}: density matrix is not Hermitian"))
            else:
                ev = np.linalg.eigvalsh((a + a.conj().T) / 2)
                if ev.min() < -1e-7:
                    err(("C07", f"{b.where}: density matrix has eigenvalue {ev.min():.3g}"))
        else:
            err(("C07", f"{b.where}: holds an array of shape {a.shape} but reports expansion level {lv}"))


def _check_graph(L, w: World, s: Snapshot) -> None:
    """C13 part: registries, back pointers, no duplicates / empties, disjointness."""
    err = s.errors.append
    CE = L.CompositeEnvelope
    seen_ps: Dict[int, str] = {}
    conts = {}
    for ce in w.ces:
        try:
            cont = CE._containers[ce.uid]
        except KeyError:
            err(("C13", f"composite handle {w.ces.index(ce)} has no container"))
            continue
        conts[id(cont)] = cont
    owner_of_obj: Dict[int, int] = {}
    for cid, cont in conts.items():
        ids = [id(p) for p in cont.states]
        if len(ids) != len(set(ids)):
            err(("C13", "a product space is listed twice in one container"))
        for k, ps in enumerate(cont.states):
            if len(ps.state_objs) == 0:
                err(("C13", f"empty product space left in a container at position {k}"))
            if id(ps) in seen_ps and seen_ps[id(ps)] != cid:
                err(("C13", "one product space is listed in two containers"))
            seen_ps[id(ps)] = cid
            for i, m in enumerate(ps.state_objs):
                if id(m) in owner_of_obj and owner_of_obj[id(m)] != id(ps):
                    err(("C13", f"{w.name(m)} is a member of two product spaces"))
                owner_of_obj[id(m)] = id(ps)
                if tuple(m.index) != (k, i) if isinstance(m.index, (tuple, list)) else True:
                    err(("C13", f"{w.name(m)}: index {m.index} but stored at product space {k} position {i}"))
                mce = getattr(m, "composite_envelope", None)
                if mce is None or CE._containers.get(mce.uid) is not cont:
                    err(("C13", f"{w.name(m)}: stored in a product space but does not point back to that composite envelope"))
        for e in cont.envelopes:
            ece = e.composite_envelope
            if ece is None or CE._containers.get(ece.uid) is not cont:
                err(("C13", "a member envelope does not point back to its composite envelope"))
        eids = [id(e) for e in cont.envelopes]
        if len(eids) != len(set(eids)):
            err(("C13", "an envelope is listed twice in one container"))
    # envelopes claimed by two different containers
    env_owner: Dict[int, int] = {}
    for cid, cont in conts.items():
        for e in cont.envelopes:
            if id(e) in env_owner and env_owner[id(e)] != cid:
                err(("C13", "an envelope is a member of two different containers"))
            env_owner[id(e)] = cid


# ------------------------------------------------------------------------------------------------
_POL = {"H": np.array([1, 0], dtype=complex), "V": np.array([0, 1], dtype=complex),
        "R": np.array([1, 1j], dtype=complex) / math.sqrt(2), "L": np.array([1, -1j], dtype=complex) / math.sqrt(2)}


def block_rho(b: Block) -> np.ndarray:
    """view of one block: the density matrix it denotes (label -> projector, vector -> |psi><psi|)."""
    D = int(np.prod(b.dims))
    if not isinstance(b.array, np.ndarray):
        if isinstance(b.array, str):
            v = _POL[b.array]
        else:
            v = np.zeros(D, dtype=complex)
            if 0 <= int(b.array) < D:
                v[int(b.array)] = 1
        return np.outer(v, v.conj())
    a = b.array
    if a.shape == (D, 1):
        v = a.reshape(-1)
        return np.outer(v, v.conj())
    if a.shape == (D, D):
        return a
    raise ValueError(f"{b.where}: array shape {a.shape} does not fit dimensions {b.dims}")


def joint_rho(s: Snapshot, names: List[str], partial: bool = False):
    """Joint density matrix of all live subsystems, axes ordered as `names` (must be exactly the live
    set; with partial=True exactly a union of whole blocks - blocks are independent tensor factors).  Returns (rho[D,D], dims)."""
    order: List[str] = []
    dims: List[int] = []
    rho = np.array([[1.0 + 0j]])
    for b in s.blocks:
        if partial:
            inside = [m in names for m in b.members]
            if not any(inside):
                continue
            if not all(inside):
                raise ValueError(f"scope {names} cuts through block {b.where} {b.members}")
        rho = np.kron(rho, block_rho(b))
        order.extend(b.members)
        dims.extend(b.dims)
    if sorted(order) != sorted(names):
        raise ValueError(f"live subsystems {sorted(names)} differ from stored ones {sorted(order)}")
    perm = [order.index(n) for n in names]
    n = len(order)
    t = rho.reshape(dims + dims).transpose(perm + [n + p for p in perm])
    nd = [dims[p] for p in perm]
    D = int(np.prod(nd)) if nd else 1
    return t.reshape(D, D), nd


def pad_rho(rho: np.ndarray, dims: List[int], new_dims: List[int]) -> Optional[np.ndarray]:
    """Embed rho (axes dims) into the space new_dims by zero padding / dropping empty levels.
    Returns None if a level that would be dropped carries weight."""
    n = len(dims)
    t = rho.reshape(dims + dims)
    for ax, (d, nd) in enumerate(zip(dims, new_dims)):
        if nd == d:
            continue
        for axis in (ax, n + ax):
            if nd > d:
                pad = [(0, 0)] * t.ndim
                pad[axis] = (0, nd - d)
                t = np.pad(t, pad)
            else:
                sl = [slice(None)] * t.ndim
                sl[axis] = slice(nd, None)
                if np.max(np.abs(t[tuple(sl)])) > 1e-9:
                    return None
                sl[axis] = slice(0, nd)
                t = t[tuple(sl)]
    D = int(np.prod(new_dims)) if new_dims else 1
    return t.reshape(D, D)
