"""Level-B sidecar contracts for the public methods (DESIGN section 7, appendix D).

Every clause is tagged with the property it comes from.  Postconditions are taken from the property
statements; shapes / frames from the code.
"""
from __future__ import annotations

from typing import Any, Dict, List, Optional, Sequence, Tuple

import numpy as np

from . import spec as S
from . import world as W
from .harness import Clause, Contract, _STATE

TOL = 1e-8


# ------------------------------------------------------------------------------------------------ helpers
def live_joint(w, snap):
    names = list(snap.live)
    rho, dims = W.joint_rho(snap, names)
    return rho, dims, names


SCOPE_ABOVE = 3000     # joint dimension above which the state clause is evaluated on the blocks the call touched only


def block_closure(old, new, targets: Sequence[str]) -> List[str]:
    """smallest set of subsystems containing the targets that is a union of whole blocks before and after the call"""
    scope = set(targets)
    while True:
        add = set()
        for snap in (old, new):
            for b in snap.blocks:
                if scope & set(b.members):
                    add |= set(b.members)
        if add <= scope:
            return [n for n in old.live if n in scope]
        scope |= add


def joint_dimension(snap) -> int:
    D = 1
    for b in snap.blocks:
        for d in b.dims:
            D *= int(d)
    return D


def safe_joint(w, snap):
    try:
        return live_joint(w, snap)
    except Exception:
        return None


def invariant_clauses(new) -> List[Clause]:
    out = []
    by = {}
    for prop, msg in new.errors:
        by.setdefault(prop, []).append(msg)
    for prop in ("C07", "C13", "C05"):
        msgs = by.get(prop, [])
        out.append(Clause(prop, "well_formed" if prop != "C05" else "destroyed-subsystems-hold-nothing", not msgs, "; ".join(msgs[:4])))
    return out


def frame_clauses(old, new, touched: Sequence[str], single: bool, merged_targets: Sequence[str] = ()) -> List[Clause]:
    """C20: blocks containing no touched subsystem are not modified at all; single-subsystem actions
    never enlarge a product space; a multi-subsystem action merges exactly the blocks of its operands."""
    out = []
    bad = []
    touched = set(touched)
    for b in old.blocks:
        if touched & set(b.members):
            continue
        nb = None
        for c in new.blocks:
            if c.owner == b.owner and c.kind == b.kind:
                nb = c
                break
        if nb is None:
            bad.append(f"bystander block {b.where} disappeared / moved")
            continue
        if nb.members != b.members:
            bad.append(f"bystander block {b.where}: members {b.members} -> {nb.members}")
        elif nb.level != b.level:
            bad.append(f"bystander block {b.where}: level {b.level} -> {nb.level}")
        elif isinstance(b.array, np.ndarray) != isinstance(nb.array, np.ndarray):
            bad.append(f"bystander block {b.where}: representation changed")
        elif isinstance(b.array, np.ndarray):
            if b.array.shape != nb.array.shape or not np.array_equal(b.array, nb.array):
                bad.append(f"bystander block {b.where}: amplitudes changed")
        elif b.array != nb.array:
            bad.append(f"bystander block {b.where}: label {b.array} -> {nb.array}")
    out.append(Clause("C20", "bystander-blocks-untouched", not bad, "; ".join(bad[:3])))
    if single:
        big = []
        for c in new.blocks:
            prev = max((len(b.members) for b in old.blocks if set(b.members) & set(c.members)), default=0)
            if len(c.members) > prev:
                big.append(f"{c.where} grew from {prev} to {len(c.members)} members")
        out.append(Clause("C20", "single-subsystem-action-never-enlarges-a-block", not big, "; ".join(big[:3])))
    if merged_targets:
        want = set()
        for b in old.blocks:
            if set(b.members) & set(merged_targets):
                want |= set(b.members)
        got = None
        for c in new.blocks:
            if set(c.members) & set(merged_targets):
                got = set(c.members) if got is None else got | set(c.members)
        nblk = sum(1 for c in new.blocks if set(c.members) & set(merged_targets))
        ok = (got == want)
        out.append(Clause("C20", "merged-block-is-union-of-operand-blocks", ok,
                          "" if ok else f"operands {list(merged_targets)}: merged members {sorted(got or [])}, expected {sorted(want)} ({nblk} block(s))"))
    return out


def state_clause(prop, name, expected, got, tol=TOL, extra="") -> Clause:
    if expected is None:
        return Clause(prop, name, False, "expected state undefined: " + extra)
    if expected.shape != got.shape:
        return Clause(prop, name, False, f"shape {got.shape}, expected {expected.shape} {extra}")
    d = float(np.max(np.abs(expected - got))) if expected.size else 0.0
    return Clause(prop, name, d <= tol, "" if d <= tol else f"max |rho_actual - rho_spec| = {d:.3g} {extra}")


# ------------------------------------------------------------------------------------------------ operator spec
RENORMALISING_FOCK = {"Creation", "Annihilation", "Squeeze"}


def op_family(operation) -> str:
    return type(operation._operation_type).__name__


def spec_operator(operation, tdims: List[int]) -> Tuple[Optional[np.ndarray], bool]:
    """Textbook matrix of `operation` at target dimensions tdims, and whether the type renormalises
    (per the statement of C01: ladder operators, squeezing and all polarization, custom-state and
    composite types)."""
    fam = op_family(operation)
    nm = operation._operation_type.name
    kw = operation.kwargs
    if fam == "FockOperationType":
        d = tdims[0]
        ren = nm in RENORMALISING_FOCK
        if nm == "Creation":
            return S.creation(d), ren
        if nm == "Annihilation":
            return S.annihilation(d), ren
        if nm == "PhaseShift":
            return S.phase(d, float(kw["phi"])), ren
        if nm == "Displace":
            return S.displace(d, complex(kw["alpha"])), ren
        if nm == "Squeeze":
            return S.squeeze(d, complex(kw["zeta"])), ren
        if nm == "Identity":
            return np.eye(d, dtype=complex), ren
        if nm == "Custom":
            return np.array(kw["operator"], dtype=complex), ren
        if nm == "Expresion":
            return spec_eval(kw["expr"], kw["context"], tdims), ren
    if fam == "PolarizationOperationType":
        table = {"I": S.I2, "X": S.X, "Y": S.Y, "Z": S.Z, "H": S.H, "S": S.S, "T": S.T, "SX": S.SX}
        if nm in table:
            return table[nm], True
        if nm == "RX":
            return S.rx(float(kw["theta"])), True
        if nm == "RY":
            return S.ry(float(kw["theta"])), True
        if nm == "RZ":
            return S.rz(float(kw["theta"])), True
        if nm == "U3":
            return S.u3(float(kw["phi"]), float(kw["theta"]), float(kw["omega"])), True
        if nm == "Custom":
            return np.array(kw["operator"], dtype=complex), True
    if fam == "CustomStateOperationType":
        if nm == "Custom":
            return np.array(kw["operator"], dtype=complex), True
        if nm == "Expresion":
            return spec_eval(kw["expr"], kw["context"], tdims), True
    if fam == "CompositeOperationType":
        if nm == "NonPolarizingBeamSplitter":
            return S.beamsplitter(tdims[0], tdims[1], float(kw["eta"])), True
        table = {"CXPolarization": S.CNOT, "SwapPolarization": S.SWAP, "CSwapPolarization": S.CSWAP, "CZPolarization": S.CZ}
        if nm in table:
            return table[nm], True
        if nm == "Expression":
            return spec_eval(kw["expr"], kw["context"], tdims), True
    return None, False


def spec_eval(expr, context, dims):
    """Independent evaluator of the documented expression algebra (C16 spec function)."""
    from scipy.linalg import expm
    if isinstance(expr, tuple):
        op, *args = expr
        vals = [spec_eval(a, context, dims) for a in args]
        if op == "add":
            r = vals[0]
            for v in vals[1:]:
                r = r + v
            return r
        if op == "sub":
            return vals[0] - vals[1]
        if op == "s_mult":
            r = vals[0]
            for v in vals[1:]:
                r = r * v
            return r
        if op in ("m_mult", "kron", "expm") and not all(np.ndim(v) == 2 for v in vals):
            raise TypeError("matrix command applied to a non-matrix (ill-typed expression)")
        if op == "m_mult":
            r = vals[0]
            for v in vals[1:]:
                r = r @ v
            return r
        if op == "kron":
            r = vals[0]
            for v in vals[1:]:
                r = np.kron(r, v)
            return r
        if op == "expm":
            return expm(np.array(vals[0], dtype=complex))
        if op == "div":
            return vals[0] / vals[1]
        raise ValueError("unknown command")
    if isinstance(expr, str):
        return np.array(context[expr](list(dims)), dtype=complex)
    if hasattr(expr, "shape"):
        return np.array(expr, dtype=complex)
    return expr


def number_distribution(rho, dims, tidx):
    """P(total photon number of the target modes == k), from the reduced state of the targets."""
    red = S.spec_ptrace(rho, dims, tidx)
    td = [dims[i] for i in tidx]
    diag = np.real(np.diag(red)).reshape(td)
    out = np.zeros(sum(td) - len(td) + 1)
    for idx in np.ndindex(*td):
        out[sum(idx)] += diag[idx]
    return out


def number_conservation_clauses(operation, tn, tidx, rho_before, rho_after, dims) -> List[Clause]:
    """C11: a beam splitter on two modes / a phase shifter on one mode never changes the distribution of the total
    photon number of the modes involved."""
    fam, nm = op_family(operation), operation._operation_type.name
    if not ((fam == "CompositeOperationType" and nm == "NonPolarizingBeamSplitter") or (fam == "FockOperationType" and nm == "PhaseShift")):
        return []
    a = number_distribution(rho_before, dims, tidx)
    b = number_distribution(rho_after, dims, tidx)
    d = float(np.max(np.abs(a - b)))
    return [Clause("C11", "total-photon-number-distribution-is-conserved", d <= 1e-8,
                   f"{nm} on {tn}: distribution {np.round(a, 6).tolist()} -> {np.round(b, 6).tolist()}")]


def auto_dimension_clauses(operation, tn, tidx, rho0, dims0, dims1, rho1, ren) -> List[Clause]:
    """C10: the dimension chosen automatically before an operation is large enough: the result equals the ideal
    (cut-off + 40) result restricted to the chosen space - exactly for ladder / phase / beam-splitter operations, and up
    to the documented truncation threshold (1e-6 of the probability mass) for displacement, squeezing, expressions."""
    fam, nm = op_family(operation), operation._operation_type.name
    exact = (fam == "FockOperationType" and nm in ("Creation", "Annihilation", "PhaseShift", "Identity")) or \
            (fam == "CompositeOperationType" and nm == "NonPolarizingBeamSplitter")
    approx = fam == "FockOperationType" and nm in ("Displace", "Squeeze", "Expresion")
    if not (exact or approx):
        return []
    # the operator acts on the targets only, so the comparison is made on the reduced state of the targets
    rho0 = S.spec_ptrace(rho0, dims0, tidx)
    rho1 = S.spec_ptrace(rho1, dims1, tidx)
    dims0 = [dims0[i] for i in tidx]
    dims1 = [dims1[i] for i in tidx]
    tidx = list(range(len(tidx)))
    big = list(dims1)
    for i in tidx:
        # beam splitters conserve the total number: a small head-room suffices (and keeps expm of the two-mode generator cheap)
        big[i] = max(dims1[i], dims0[i]) + (40 if len(tidx) == 1 else 4)
    # only Fock targets are enlarged (polarization / custom targets keep their dimension)
    for i in tidx:
        if not tn[tidx.index(i)].endswith(".f"):
            big[i] = dims1[i]
    try:
        O, _ = spec_operator(operation, [big[i] for i in tidx])
        src = W.pad_rho(rho0, dims0, [max(a, b) for a, b in zip(dims0, big)])
        if src is None or O is None:
            return []
        ideal = S.spec_apply(src, big, tidx, O, False)
    except Exception as ex:
        return [Clause("ENGINE", "ideal-result-computable", False, f"{type(ex).__name__}: {ex}")]
    n = len(big)
    t = ideal.reshape(big + big)
    sl = tuple(slice(0, d) for d in dims1) * 2
    inside = t[sl].reshape(rho1.shape)
    total = np.trace(ideal).real
    mass = np.trace(inside).real / total if total > 1e-15 else 0.0
    cl = []
    if exact:
        cl.append(Clause("C10", "chosen-dimension-holds-the-whole-result", mass > 1 - 1e-9,
                         f"{nm} on {tn}: dims {dims0}->{dims1} keep only {mass:.9f} of the ideal result"))
        tol = 1e-8
    else:
        cl.append(Clause("C10", "chosen-dimension-holds-most-of-the-result", mass > 0.8,
                         f"{nm} on {tn}: dims {dims0}->{dims1} keep only {mass:.6f} of the ideal result"))
        cl.append(Clause("C10", "chosen-dimension-holds-the-result-up-to-the-threshold", mass > 1 - 1e-5,
                         f"{nm} on {tn}: dims {dims0}->{dims1} keep only {mass:.9f} of the ideal result (documented threshold 1-1e-6)"))
        tol = 5e-3
    ref = inside / (np.trace(inside).real if ren or approx else total) if np.trace(inside).real > 1e-15 else inside
    got = rho1 / np.trace(rho1).real if (approx and np.trace(rho1).real > 1e-15) else rho1
    d = float(np.max(np.abs(ref - got)))
    if approx:
        cl.append(Clause("C10", "result-roughly-equals-the-ideal-result", d <= 0.25,
                         f"{nm} on {tn}: max deviation from the ideal result {d:.3g} (dims {dims0}->{dims1})"))
    cl.append(Clause("C10", "result-equals-the-ideal-infinite-dimensional-result", d <= tol,
                     f"{nm} on {tn}: max deviation from the ideal result {d:.3g} (dims {dims0}->{dims1})"))
    return cl


# ------------------------------------------------------------------------------------------------ apply_operation
class ApplyOperation(Contract):
    """C01 / C03: rho -> (O (x) I) rho (O (x) I)^dagger on the joint state of everything in the world,
    O the textbook operator at the post-call dimension of the targets, bound to the targets in call order;
    renormalised for the renormalising types.  Plus invariants (C07, C13) and frame (C20)."""

    def __init__(self, where: str):
        self.where = where      # "self" | "env" | "ce"

    def targets(self, obj, args):
        if self.where == "self":
            return [obj], args[0]
        if self.where == "env":
            return list(args[1:2]), args[0]
        return list(args[1:]), args[0]

    def before(self, w, old, obj, args, kwargs):
        tg, operation = self.targets(obj, args)
        return {"targets": [w.name(t) for t in tg], "op": operation, "joint": safe_joint(w, old)}

    def ensure(self, w, old, new, ghost, obj, args, kwargs, result):
        cl = invariant_clauses(new)
        tn = ghost["targets"]
        cl += frame_clauses(old, new, tn, single=(len(tn) == 1), merged_targets=tn if len(tn) > 1 else ())
        if ghost["joint"] is None:
            return cl
        rho0, dims0, names0 = ghost["joint"]
        if list(new.live) != names0:
            cl.append(Clause("C01", "same-live-subsystems", False, f"{names0} -> {list(new.live)}"))
            return cl
        try:
            if joint_dimension(new) > SCOPE_ABOVE:
                # large world (a Fock space was enlarged): the blocks are independent tensor factors, so the clause on the union of
                # the blocks the call touched plus `bystander-blocks-untouched` (bit-identical, frame_clauses above) is the clause on the joint
                names1 = block_closure(old, new, tn)
                rho0, dims0 = W.joint_rho(old, names1, partial=True)
                rho1, dims1 = W.joint_rho(new, names1, partial=True)
                names0 = names1
                by = [c for c in cl if c.name == "bystander-blocks-untouched"]
                cl.append(Clause("C03" if len(tn) > 1 else "C01", "identity-on-the-blocks-outside-the-touched-ones", all(c.ok for c in by),
                                 "; ".join(c.detail for c in by if not c.ok)[:300]))
            else:
                rho1, dims1, names1 = live_joint(w, new)
        except ValueError as ex:
            cl.append(Clause("C01", "joint-state-readable", False, str(ex)))
            return cl
        tidx = [names1.index(t) for t in tn]
        O, ren = spec_operator(ghost["op"], [dims1[i] for i in tidx])
        if O is None:
            return cl
        padded = W.pad_rho(rho0, dims0, dims1)
        prop = "C03" if len(tn) > 1 else "C01"
        if padded is None:
            cl.append(Clause("C10", "resize-before-operation-drops-no-population", False, f"dims {dims0} -> {dims1}"))
            return cl
        try:
            exp = S.spec_apply(padded, dims1, tidx, O, ren)
        except ValueError as ex:
            cl.append(Clause(prop, "operator-fits-target-dimensions", False, str(ex)))
            return cl
        cl.append(state_clause(prop, "joint-state-is-(O x I) rho (O x I)^dagger", exp, rho1,
                               extra=f"[{ghost['op']._operation_type.name} on {tn}, dims {dims0}->{dims1}]"))
        cl += auto_dimension_clauses(ghost["op"], tn, tidx, rho0, dims0, dims1, rho1, ren)
        cl += number_conservation_clauses(ghost["op"], tn, tidx, padded, rho1, dims1)
        for t, i in zip(tn, tidx):
            b = new.block_of(t)
            ax = b.dims[b.members.index(t)]
            cl.append(Clause("C10", "reported-dimension-equals-axis-length", ax == new.sub[t]["dims"] or new.sub[t]["dims"] < 0,
                             f"{t}: dimensions {new.sub[t]['dims']} vs axis {ax}"))
        return cl

    def raises(self, w, old, new, ghost, obj, args, kwargs, exc):
        return [Clause("C01", "valid-operation-does-not-raise", False, f"{type(exc).__name__}: {exc}")] + invariant_clauses(new)


def extra_table(L, BaseState):
    from . import contracts2
    return contracts2.table(L, BaseState)
