"""Engine B core: sidecar contract wrappers on the real methods, the random-choice recorder with
forced outcomes, and the clause log.

The wrappers are installed by assignment on the classes at check time only (repository files are
untouched; with the harness not loaded nothing is patched).  A wrapper = require / snapshot(OLD) /
ensure / raises in the style of icontract; own code because icontract has neither exceptional
postconditions nor a ghost world to snapshot (DESIGN 4.2).  Only the *outermost* public call is
checked against its contract: nested library calls run through intermediate states for which the
representation invariant is not claimed.
"""
from __future__ import annotations

import functools
import traceback
from typing import Any, Callable, Dict, List, Optional, Tuple

import numpy as np

from . import world as W

_STATE: Dict[str, Any] = {"world": None, "depth": 0, "log": [], "installed": [], "contracts": {}, "calls": 0,
                          "eq_hits": 0}


class Clause:
    __slots__ = ("prop", "name", "ok", "detail", "method")

    def __init__(self, prop, name, ok, detail="", method=""):
        self.prop, self.name, self.ok, self.detail, self.method = prop, name, bool(ok), detail, method

    def as_dict(self):
        return {"prop": self.prop, "clause": self.name, "ok": self.ok, "detail": self.detail, "method": self.method}


def log() -> List[Clause]:
    return _STATE["log"]


def set_world(w) -> None:
    _STATE["world"] = w
    _STATE["log"] = []
    _STATE["depth"] = 0
    _STATE["calls"] = 0
    _STATE["phase"] = "library"


# ------------------------------------------------------------------------------------------------ random choice recorder
class Recorder:
    """Replaces jax.random.choice (looked up through the module at call time by every sampling site).
    Logs (key, p) and returns a forced outcome: script[i] for the i-th draw, else the most likely one."""

    def __init__(self, script: Optional[List[int]] = None):
        self.script = list(script or [])
        self.draws: List[Dict[str, Any]] = []
        self._orig = None

    def __enter__(self):
        import jax
        self._orig = jax.random.choice
        rec = self
        _STATE["recorder"] = self

        def choice(key, a, shape=(), replace=True, p=None, axis=0):
            import jax.numpy as jnp
            pa = None if p is None else np.array(p, dtype=float).reshape(-1)
            arr = np.arange(int(a)) if np.ndim(a) == 0 else np.array(a)
            i = len(rec.draws)
            if i < len(rec.script):
                k = rec.script[i]
            else:
                k = int(np.nanargmax(pa)) if pa is not None and len(pa) and not np.all(np.isnan(pa)) else 0
            rec.draws.append({"key": np.array(key).tolist(), "p": None if pa is None else pa.copy(), "n": len(arr), "chosen": k,
                              "depth": _STATE["depth"]})
            k = min(max(k, 0), len(arr) - 1)
            return jnp.array(arr[k])

        jax.random.choice = choice
        return self

    def __exit__(self, *a):
        import jax
        jax.random.choice = self._orig
        _STATE["recorder"] = None
        return False


# ------------------------------------------------------------------------------------------------ wrappers
class Contract:
    """Base class of a method contract.  `spec` is evaluated on OLD (before the call), `ensure` after a
    normal return, `raises` after an exception.  Each returns clauses."""
    method = ""

    def requires(self, w, old, obj, args, kwargs) -> Optional[str]:
        return None

    def before(self, w, old, obj, args, kwargs) -> Any:
        return None

    def ensure(self, w, old, new, ghost, obj, args, kwargs, result) -> List[Clause]:
        return []

    def raises(self, w, old, new, ghost, obj, args, kwargs, exc) -> List[Clause]:
        return []


LIB_CPU_S = 240     # CPU seconds one outermost library call may burn (all threads) before it is reported as non-terminating


def _arm(seconds: float) -> None:
    """(dis)arms the CPU-time watchdog of the current library call; the handler is installed by cells.run_cell"""
    import signal
    try:
        if _STATE.get("watchdog"):
            signal.setitimer(signal.ITIMER_PROF, seconds)
    except (ValueError, AttributeError, OSError):
        pass


def _wrap(cls, name: str, contract: Contract):
    real = cls.__dict__[name] if name in cls.__dict__ else getattr(cls, name)

    @functools.wraps(real)
    def wrapper(self, *args, **kwargs):
        w = _STATE["world"]
        if w is None or _STATE["depth"] > 0:
            _STATE["depth"] += 1
            try:
                return real(self, *args, **kwargs)
            finally:
                _STATE["depth"] -= 1
        _STATE["phase"] = "contract"
        old = W.snapshot(w)
        label = f"{cls.__name__}.{name}"
        ghost = None
        try:
            ghost = contract.before(w, old, self, args, kwargs)
        except Exception as ex:     # a crash of the contract is the checker's problem, not a verdict
            log().append(Clause("ENGINE", "contract-before-crashed", False, f"{label}: {type(ex).__name__}: {ex}\n" + traceback.format_exc(limit=3), label))
        _STATE["depth"] += 1
        _STATE["calls"] += 1
        exc = None
        result = None
        _STATE["phase"] = "library"
        _arm(LIB_CPU_S)
        try:
            result = real(self, *args, **kwargs)
        except Exception as ex:
            exc = ex
        finally:
            _arm(0)
            _STATE["depth"] -= 1
            _STATE["phase"] = "contract"
        new = W.snapshot(w)
        try:
            if exc is None:
                cl = contract.ensure(w, old, new, ghost, self, args, kwargs, result)
            else:
                cl = contract.raises(w, old, new, ghost, self, args, kwargs, exc)
        except Exception as ex:
            cl = [Clause("ENGINE", "contract-crashed", False, f"{label}: {type(ex).__name__}: {ex}\n" + traceback.format_exc(limit=4), label)]
        for c in cl:
            c.method = c.method or label
            log().append(c)
        _STATE["phase"] = "library"
        if exc is not None:
            raise exc
        return result

    wrapper.__verif_real__ = real
    return real, wrapper


class unchecked:
    """library calls made inside this block pass through the wrappers unchecked (scratch objects outside the world)"""

    def __enter__(self):
        _STATE["depth"] += 1
        return self

    def __exit__(self, *a):
        _STATE["depth"] -= 1
        return False


class Installed:
    """Context manager: installs the sidecar wrappers for the duration of a cell."""

    def __init__(self, table: List[Tuple[Any, str, Contract]]):
        self.table = table
        self.saved: List[Tuple[Any, str, Any]] = []

    def __enter__(self):
        for cls, name, contract in self.table:
            real, wrapper = _wrap(cls, name, contract)
            self.saved.append((cls, name, cls.__dict__.get(name, None)))
            setattr(cls, name, wrapper)
        return self

    def __exit__(self, *a):
        for cls, name, orig in reversed(self.saved):
            if orig is None:
                delattr(cls, name)
            else:
                setattr(cls, name, orig)
        self.saved = []
        return False
