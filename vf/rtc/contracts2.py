"""Level-B contracts, part 2: partial trace, structural calls, measurement, POVM, Kraus channels, resize."""
from __future__ import annotations

from typing import Any, Dict, List, Optional, Sequence, Tuple

import numpy as np

from . import spec as S
from . import world as W
from .contracts import (TOL, frame_clauses, invariant_clauses, live_joint, safe_joint, state_clause)
from .harness import Clause, Contract, _STATE

POL = {"H": 0, "V": 1}


def value_to_rho(val, d: int) -> Optional[np.ndarray]:
    """A returned reduced state (label, vector or matrix) as a density matrix."""
    if val is None:
        return None
    if hasattr(val, "value") and isinstance(val.value, str):
        v = W._POL[val.value]
        return np.outer(v, v.conj())
    if isinstance(val, (int, np.integer)):
        v = np.zeros(d, dtype=complex)
        if 0 <= int(val) < d:
            v[int(val)] = 1
        return np.outer(v, v.conj())
    a = np.array(val, dtype=complex)
    if a.ndim == 2 and a.shape[1] == 1:
        v = a.reshape(-1)
        return np.outer(v, v.conj())
    return a


def partners(w, targets: List[Any]) -> List[Any]:
    """envelope partner of every Fock / polarization target (custom states have none)."""
    out = []
    for t in targets:
        env = getattr(t, "envelope", None)
        if env is None:
            continue
        other = env.polarization if t is env.fock else env.fock
        if not any(other is x for x in targets) and not any(other is x for x in out):
            out.append(other)
    return out


def unchanged_clause(prop, w, old, new, joint_old, tol=TOL, name="joint-state-unchanged") -> List[Clause]:
    if joint_old is None:
        return []
    rho0, dims0, names0 = joint_old
    try:
        rho1, dims1, names1 = live_joint(w, new)
    except ValueError as ex:
        return [Clause(prop, "joint-state-readable", False, str(ex))]
    if names0 != names1:
        return [Clause(prop, "same-live-subsystems", False, f"{names0} -> {names1}")]
    if dims0 != dims1:
        p = W.pad_rho(rho0, dims0, dims1)
        if p is None:
            return [Clause(prop, name, False, f"dimensions {dims0} -> {dims1} drop populated levels")]
        rho0 = p
    return [state_clause(prop, name, rho0, rho1, tol)]


# ------------------------------------------------------------------------------------------------ trace_out
class TraceOut(Contract):
    """C02: the returned reduced state equals the true partial trace of the joint state, in the order
    requested (a vector return is compared as |v><v|), and the joint state is unchanged."""

    def __init__(self, where):
        self.where = where

    def before(self, w, old, obj, args, kwargs):
        tg = [obj] if self.where == "self" else list(args)
        return {"targets": [w.name(t) for t in tg], "joint": safe_joint(w, old)}

    def ensure(self, w, old, new, ghost, obj, args, kwargs, result):
        cl = invariant_clauses(new)
        tn = ghost["targets"]
        cl += frame_clauses(old, new, tn, single=(len(tn) == 1), merged_targets=tn if len(tn) > 1 else ())
        cl += unchanged_clause("C02", w, old, new, ghost["joint"])
        if ghost["joint"] is None:
            return cl
        rho0, dims0, names0 = ghost["joint"]
        idx = [names0.index(t) for t in tn]
        exp = S.spec_ptrace(rho0, dims0, idx)
        d = int(np.prod([dims0[i] for i in idx]))
        got = value_to_rho(result, d)
        if got is not None and got.shape != exp.shape:
            # the library may return the reduced state at a different (padded) Fock cut-off only if dims changed; not here
            cl.append(Clause("C02", "partial-trace-shape", False, f"returned shape {got.shape}, expected {exp.shape}"))
        else:
            c = state_clause("C02", "returned-reduced-state-is-the-partial-trace", exp, got, extra=f"[keep {tn}]")
            cl.append(c)
        return cl

    def raises(self, w, old, new, ghost, obj, args, kwargs, exc):
        return [Clause("C02", "valid-partial-trace-does-not-raise", False, f"{type(exc).__name__}: {exc}")] + invariant_clauses(new)


# ------------------------------------------------------------------------------------------------ structural
class Structural(Contract):
    """C02 / C08: combine, reorder, expand, contract, container construction leave the joint state
    unchanged; contract changes the level only for pure states / exact basis states."""

    def __init__(self, what, where):
        self.what, self.where = what, where

    def applicable(self, w, old, obj, args) -> bool:
        """Precondition under which the call must succeed (derived from the code and its call sites):
        own-state expand / contract need the subsystem to hold its state; Envelope.combine needs an
        uncombined envelope whose members hold their own states; Envelope.contract needs a combined
        matrix-level envelope; composite calls need members of that composite envelope.  Outside it the
        call may be rejected, and then only 'state unchanged' is demanded."""
        if self.where == "self":
            n = w.name(obj)
            return n in old.live and old.sub[n]["index"] is None
        if self.where == "envall":
            f, p = w.name(obj.fock), w.name(obj.polarization)
            if f not in old.live or p not in old.live:
                return False
            if self.what == "combine":
                return old.sub[f]["index"] is None and old.sub[p]["index"] is None
            comb = isinstance(old.sub[f]["index"], int) and isinstance(old.sub[p]["index"], int)
            if self.what == "contract":
                b = old.block_of(f)
                return comb and b is not None and b.level == 2
            if self.what == "reorder":
                return all(isinstance(a, (type(obj.fock), type(obj.polarization))) for a in args)
            return True
        names = [w.name(a) for a in args]
        mine = {w.name(s) for s in obj.state_objs}
        return all(n in old.live and n in mine for n in names) and len(set(names)) == len(names)

    def before(self, w, old, obj, args, kwargs):
        if self.where == "self":
            tg = [obj]
        elif self.where == "envall":
            tg = [obj.fock, obj.polarization]
        else:
            tg = [a for a in args if hasattr(a, "expansion_level") and not hasattr(a, "fock")]
        return {"targets": [w.name(t) for t in tg], "joint": safe_joint(w, old), "applicable": self.applicable(w, old, obj, args)}

    def ensure(self, w, old, new, ghost, obj, args, kwargs, result):
        cl = invariant_clauses(new)
        tol = 1e-5 if self.what == "contract" else TOL
        cl += unchanged_clause("C02" if self.what != "contract" and self.what != "expand" else "C08", w, old, new, ghost["joint"], tol,
                               name=f"{self.what}-keeps-the-joint-state")
        tn = [t for t in ghost["targets"] if not t.startswith("<")]
        if self.what in ("expand", "contract", "reorder"):
            cl += frame_clauses(old, new, tn, single=False)
        if self.what == "combine" and self.where == "ce" and tn:
            cl += frame_clauses(old, new, tn, single=False, merged_targets=tn if len(tn) > 1 else ())
        if self.what == "contract":
            # level may only drop for (nearly) pure states; otherwise the block must be bit-identical
            for b in old.blocks:
                nb = next((c for c in new.blocks if c.owner == b.owner and c.members == b.members), None)
                if nb is None or not isinstance(b.array, np.ndarray):
                    continue
                if nb.level != b.level:
                    rho = W.block_rho(b)
                    pur = float(np.trace(rho @ rho).real)
                    cl.append(Clause("C08", "contract-changes-level-only-for-pure-states", abs(pur - 1) < 1e-5,
                                     f"{b.where}: level {b.level}->{nb.level} with purity {pur:.9f}"))
                    if not isinstance(nb.array, np.ndarray):
                        diag = np.real(np.diag(rho))
                        cl.append(Clause("C08", "contract-to-label-only-for-exact-basis-states", float(diag.max()) > 1 - 1e-9,
                                         f"{b.where}: contracted to label {nb.array} with max population {diag.max():.12f}"))
                elif isinstance(nb.array, np.ndarray):
                    cl.append(Clause("C08", "contract-leaves-mixed-states-untouched", np.array_equal(b.array, nb.array),
                                     f"{b.where}: level unchanged but amplitudes changed"))
        return cl

    def raises(self, w, old, new, ghost, obj, args, kwargs, exc):
        cl = invariant_clauses(new) + unchanged_clause("C02", w, old, new, ghost["joint"], name=f"rejected-{self.what}-leaves-the-joint-state")
        if ghost["applicable"]:
            cl.append(Clause("C02", f"valid-{self.what}-does-not-raise", False, f"{type(exc).__name__}: {exc}"))
        return cl


# ------------------------------------------------------------------------------------------------ measurement
def measured_set(w, where, obj, args, kwargs) -> List[Any]:
    """Who the call is specified to measure (from the docstrings of the three measure entry points):
    the subsystems named in the call (all members for an argument-less Envelope.measure(), the receiver for
    x.measure()), plus the envelope partner of every named Fock / polarization member unless
    separate_measurement=True; custom states have no partner."""
    sep = bool(kwargs.get("separate_measurement", False))
    if where == "self":
        named = [obj]
    elif where == "env":
        named = list(args) if args else [obj.fock, obj.polarization]
    else:
        named = list(args)
    named = [x for x in named if x is not None]
    out = list(named)
    if not sep:
        out += partners(w, named)
    return out


def optional_measured(w, where, obj, args, kwargs) -> List[Any]:
    """Under-specified case: Polarization.measure() on a polarization holding its own state documents only
    'measures this state'; the library measures just the receiver there while every other route also measures
    the envelope partner.  The contract accepts both (partner optional) instead of demanding more than is stated."""
    if where == "self" and type(obj).__name__ == "Polarization" and obj.index is None and not kwargs.get("separate_measurement", False):
        return partners(w, [obj])
    return []


class Measure(Contract):
    def __init__(self, where):
        self.where = where

    def before(self, w, old, obj, args, kwargs):
        ms = [x for x in measured_set(w, self.where, obj, args, kwargs)]
        opt = [w.name(x) for x in optional_measured(w, self.where, obj, args, kwargs)]
        return {"measured": [w.name(x) for x in ms if w.name(x) not in opt], "optional": opt, "joint": safe_joint(w, old),
                "destructive": bool(kwargs.get("destructive", True)), "ndraws0": len(_STATE.get("recorder").draws) if _STATE.get("recorder") else 0}

    def ensure(self, w, old, new, ghost, obj, args, kwargs, result):
        cl = invariant_clauses(new)
        ms = [m for m in ghost["measured"] if m in old.live]
        opt = [m for m in ghost["optional"] if m in old.live]
        cl += frame_clauses(old, new, ms + opt, single=False)
        if ghost["joint"] is None:
            return cl
        rho, dims, names = ghost["joint"]
        rec = _STATE.get("recorder")
        draws = rec.draws[ghost["ndraws0"]:] if rec else []
        res = {}
        foreign = []
        for k, v in (result or {}).items():
            nm = w.name(k)
            if nm in res:
                foreign.append(f"two keys for {nm}")
            res[nm] = int(v)
        # C05 / C18: exactly the specified subsystems are reported, each under its own object
        keys_ok = set(ms) <= set(res) <= set(ms) | set(opt) and not foreign
        cl.append(Clause("C05", "outcome-keys-are-exactly-the-specified-subsystems", keys_ok,
                         f"reported {sorted(res)}, specified {sorted(ms)} (optional {sorted(opt)}) {foreign}"))
        cl.append(Clause("C18", "one-outcome-entry-per-specified-object", keys_ok,
                         f"reported {sorted(res)}, specified {sorted(ms)} (optional {sorted(opt)}) {foreign}"))
        ms = [m for m in ms + opt if m in res] + [m for m in ms if m not in res]
        # C04 / C14: the draws of one call are independent only if each consumes its own key
        ks = [tuple(np.array(d["key"]).reshape(-1).tolist()) for d in draws]
        cl.append(Clause("C04", "every-draw-of-the-call-consumes-a-fresh-key", len(set(ks)) == len(ks),
                         f"{len(ks)} draws, {len(set(ks))} distinct keys: later outcomes are copies of the first draw's randomness"))
        cl.append(Clause("C14", "every-draw-of-the-call-consumes-a-fresh-key", len(set(ks)) == len(ks), f"{len(ks)} draws, {len(set(ks))} distinct keys"))
        # C04: every draw is the Born distribution of a not yet measured specified subsystem, conditioned on earlier outcomes
        todo = [m for m in ms if m in res]
        cond = rho
        ok_born = True
        for k, d in enumerate(draws):
            p = d["p"]
            if p is None:
                continue
            if np.any(np.isnan(p)) or np.any(p < -1e-9) or abs(float(np.sum(p)) - 1) > 1e-7:
                cl.append(Clause("C04", "drawn-distribution-is-a-probability-vector", False, f"draw {k}: p={np.round(p, 6).tolist()}"))
                ok_born = False
                break
            match = None
            cands = {}
            for m in todo:
                i = names.index(m)
                if dims[i] != len(p):
                    continue
                b = S.spec_born(cond, dims, i)
                cands[m] = b
                if np.max(np.abs(b - p)) <= 1e-7 and res.get(m) == d["chosen"]:
                    match = m
                    break
            if match is None:
                # a repeated draw on an already measured subsystem is legal iff it is certain (p = delta at its outcome)
                redo = [m for m in ms if m in res and m not in todo and dims[names.index(m)] == len(p)
                        and 0 <= res[m] < len(p) and p[res[m]] > 1 - 1e-7 and d["chosen"] == res[m]
                        and S.spec_born(cond, dims, names.index(m))[res[m]] > 1 - 1e-7]
                if redo:
                    continue
                cl.append(Clause("C04", "draw-follows-the-born-rule", False,
                                 f"draw {k}: p={np.round(p, 6).tolist()} chosen={d['chosen']}; Born distributions of the unmeasured specified "
                                 f"subsystems: " + "; ".join(f"{m}:{np.round(b, 6).tolist()} (reported {res.get(m)})" for m, b in cands.items())))
                ok_born = False
                break
            i = names.index(match)
            if p[d["chosen"]] <= 1e-12:
                cl.append(Clause("C04", "zero-probability-outcome-never-reported", False, f"{match}: outcome {d['chosen']} has p=0"))
            cond, _ = S.spec_project(cond, dims, i, res[match])
            todo.remove(match)
        if ok_born:
            cl.append(Clause("C04", "draw-follows-the-born-rule", True))
            # subsystems reported without a draw must be deterministic in the conditional state
            for m in list(todo):
                i = names.index(m)
                b = S.spec_born(cond, dims, i)
                o = res[m]
                det = 0 <= o < len(b) and b[o] > 1 - 1e-7
                cl.append(Clause("C04", "outcome-without-a-draw-is-certain", det,
                                 f"{m}: reported {o} without sampling, Born distribution {np.round(b, 6).tolist()}"))
                if 0 <= o < len(b) and b[o] > 1e-12:
                    cond, _ = S.spec_project(cond, dims, i, o)
                todo.remove(m)
            # C05: collapse of the survivors
            destructive = ghost["destructive"]
            keep = [n for n in names if not (n in res and destructive and not n.startswith("c"))]
            try:
                rho1, dims1, names1 = live_joint(w, new)
                exp = S.spec_ptrace(cond, dims, [names.index(n) for n in keep])
                if names1 != keep:
                    cl.append(Clause("C05", "live-subsystems-after-measurement", False, f"live {names1}, expected {keep}"))
                else:
                    kd = [dims[names.index(n)] for n in keep]
                    if kd != dims1:
                        pp = W.pad_rho(exp, kd, dims1)
                        exp = pp if pp is not None else exp
                    cl.append(state_clause("C05", "survivors-hold-the-projected-renormalised-state", exp, rho1))
            except ValueError as ex:
                cl.append(Clause("C05", "joint-state-readable", False, str(ex)))
            for m in res:
                sub = new.sub[m]
                if m.startswith("c"):
                    cl.append(Clause("C05", "custom-states-are-never-destroyed", not sub["measured"], m))
                elif destructive:
                    cl.append(Clause("C05", "destructively-measured-subsystem-is-retired",
                                     sub["measured"] and sub["state_kind"] == "none" and sub["index"] is None,
                                     f"{m}: measured={sub['measured']} state={sub['state_kind']} index={sub['index']}"))
                else:
                    cl.append(Clause("C05", "non-destructively-measured-subsystem-stays-alive", not sub["measured"], m))
        return cl

    def raises(self, w, old, new, ghost, obj, args, kwargs, exc):
        return [Clause("C04", "valid-measurement-does-not-raise", False, f"{type(exc).__name__}: {exc}")] + invariant_clauses(new)


# ------------------------------------------------------------------------------------------------ POVM
class MeasurePOVM(Contract):
    """C09: outcome i drawn with Tr(M_i rho M_i^dagger); post state (M_i x I) rho (M_i x I)^dagger / p_i;
    destructive => addressed subsystems destroyed and (unless partial=True) their envelope partners measured
    projectively and reported in the second component; non-destructive => nobody destroyed."""

    def __init__(self, where):
        self.where = where

    def before(self, w, old, obj, args, kwargs):
        if self.where == "self":
            tg, ops = [obj], args[0]
            partial = bool(kwargs.get("partial", args[2] if len(args) > 2 else False))
            destructive = bool(kwargs.get("destructive", args[1] if len(args) > 1 else True))
        else:
            tg, ops = list(args[1:]), args[0]
            partial = False
            destructive = bool(kwargs.get("destructive", True))
        rec = _STATE.get("recorder")
        return {"targets": [w.name(t) for t in tg], "ops": [np.array(o, dtype=complex) for o in ops], "joint": safe_joint(w, old),
                "destructive": destructive, "partial": partial, "partners": [w.name(x) for x in partners(w, tg)],
                "ndraws0": len(rec.draws) if rec else 0}

    def ensure(self, w, old, new, ghost, obj, args, kwargs, result):
        cl = invariant_clauses(new)
        tn = ghost["targets"]
        touched = tn + (ghost["partners"] if not ghost["partial"] else [])
        cl += frame_clauses(old, new, touched, single=(len(tn) == 1 and ghost["partial"]),
                            merged_targets=tn if (len(tn) > 1 and not ghost["destructive"]) else ())
        if ghost["joint"] is None:
            return cl
        rho, dims, names = ghost["joint"]
        idx = [names.index(t) for t in tn]
        rec = _STATE.get("recorder")
        draws = rec.draws[ghost["ndraws0"]:] if rec else []
        try:
            outcome, others = result
        except Exception:
            cl.append(Clause("C09", "returns-(outcome, other outcomes)", False, repr(result)[:80]))
            return cl
        try:
            pexp = S.spec_povm_probs(rho, dims, idx, ghost["ops"])
        except ValueError as ex:
            cl.append(Clause("C09", "operators-fit-target-dimensions", False, str(ex)))
            return cl
        if not draws:
            cl.append(Clause("C09", "outcome-is-sampled", False, "no random draw recorded"))
            return cl
        p = draws[0]["p"]
        okp = p is not None and len(p) == len(pexp) and np.max(np.abs(p - pexp / pexp.sum())) <= 1e-7
        cl.append(Clause("C09", "outcome-probabilities-are-Tr(M rho M^dagger)", okp,
                         f"drawn p={None if p is None else np.round(p, 6).tolist()}, spec {np.round(pexp / pexp.sum(), 6).tolist()}"))
        cl.append(Clause("C09", "returned-outcome-is-the-drawn-one", int(outcome) == draws[0]["chosen"], f"{outcome} vs {draws[0]['chosen']}"))
        if not (0 <= int(outcome) < len(ghost["ops"])):
            return cl
        cond, pi = S.spec_povm_post(rho, dims, idx, ghost["ops"][int(outcome)])
        cl.append(Clause("C09", "zero-probability-outcome-never-reported", pi > 1e-12, f"outcome {outcome} has p={pi:.3g}"))
        res = {w.name(k): int(v) for k, v in (others or {}).items()}
        destroyed_exp: List[str] = []
        live_partners = [q for q in ghost["partners"] if q in old.live]
        if ghost["destructive"]:
            destroyed_exp = [t for t in tn if not t.startswith("c")]
            want_partners = [] if ghost["partial"] else live_partners
            cl.append(Clause("C09", "partners-reported-in-second-component", sorted(res) == sorted(want_partners),
                             f"reported {sorted(res)}, specified {sorted(want_partners)}"))
            destroyed_exp += [q for q in want_partners if q in res]
            hidden_ok = list(destroyed_exp)        # destroyed subsystems may be sampled with an unreported outcome (unravelling)
        else:
            # Non-destructive: nothing is destroyed.  The `partial` docstring says the partner 'is measured as well' when
            # partial=False, the composite route leaves it alone; both are accepted (partner optional), but a reported
            # partner must follow the Born rule of the post-POVM state and stay alive.
            allowed = [] if ghost["partial"] else live_partners
            cl.append(Clause("C09", "non-destructive-mode-reports-only-partner-outcomes", set(res) <= set(allowed),
                             f"reported {sorted(res)}, allowed {sorted(allowed)}"))
            hidden_ok = []
        # every further draw is a Born-rule draw of a reported partner or of a destroyed subsystem, conditioned on the earlier ones
        todo = [q for q in res if q in names] + [h for h in hidden_ok if h not in res]
        born_ok = True
        for k, d in enumerate(draws[1:], start=1):
            p2 = d["p"]
            if p2 is None:
                continue
            match = None
            seen = {}
            for m in todo:
                i = names.index(m)
                if dims[i] != len(p2):
                    continue
                b = S.spec_born(cond, dims, i)
                seen[m] = b
                if np.max(np.abs(b - p2)) <= 1e-7 and (m not in res or res[m] == d["chosen"]):
                    match = m
                    break
            if match is None:
                done = [m for m in names if m not in todo and dims[names.index(m)] == len(p2)
                        and S.spec_born(cond, dims, names.index(m))[d["chosen"]] > 1 - 1e-7 and p2[d["chosen"]] > 1 - 1e-7]
                if done:
                    continue
                cl.append(Clause("C09", "partner-measurement-follows-the-born-rule", False,
                                 f"draw {k}: p={np.round(p2, 6).tolist()} chosen={d['chosen']}; Born distributions: "
                                 + "; ".join(f"{m}:{np.round(b, 6).tolist()}" for m, b in seen.items())))
                born_ok = False
                break
            cond, _ = S.spec_project(cond, dims, names.index(match), d["chosen"])
            todo.remove(match)
        if born_ok:
            for q in [q for q in todo if q in res]:
                i = names.index(q)
                b = S.spec_born(cond, dims, i)
                cl.append(Clause("C09", "partner-outcome-without-a-draw-is-certain", 0 <= res[q] < len(b) and b[res[q]] > 1 - 1e-7,
                                 f"{q}: reported {res[q]}, Born {np.round(b, 6).tolist()}"))
                if 0 <= res[q] < len(b) and b[res[q]] > 1e-12:
                    cond, _ = S.spec_project(cond, dims, i, res[q])
        keep = [n for n in names if n not in destroyed_exp]
        for n in names:
            sub = new.sub[n]
            if n in destroyed_exp:
                cl.append(Clause("C09", "destructive-mode-destroys-the-addressed-subsystems",
                                 sub["measured"] and sub["state_kind"] == "none" and sub["index"] is None,
                                 f"{n}: measured={sub['measured']} state={sub['state_kind']} index={sub['index']}"))
            else:
                cl.append(Clause("C09", "nothing-else-is-destroyed", not sub["measured"], f"{n} was destroyed"))
        try:
            rho1, dims1, names1 = live_joint(w, new)
            if names1 == keep:
                exp = S.spec_ptrace(cond, dims, [names.index(n) for n in keep])
                kd = [dims[names.index(n)] for n in keep]
                if kd != dims1:
                    pp = W.pad_rho(exp, kd, dims1)
                    exp = pp if pp is not None else exp
                cl.append(state_clause("C09", "post-state-is-(M x I) rho (M x I)^dagger / p", exp, rho1))
        except ValueError as ex:
            cl.append(Clause("C09", "joint-state-readable", False, str(ex)))
        return cl

    def raises(self, w, old, new, ghost, obj, args, kwargs, exc):
        return [Clause("C09", "valid-POVM-does-not-raise", False, f"{type(exc).__name__}: {exc}")] + invariant_clauses(new)


# ------------------------------------------------------------------------------------------------ Kraus
class ApplyKraus(Contract):
    """C06: rho -> sum_i (K_i x I) rho (K_i x I)^dagger, factors bound to the targets in call order;
    unit trace; reported as a density matrix unless provably pure."""

    def __init__(self, where):
        self.where = where

    def before(self, w, old, obj, args, kwargs):
        tg = [obj] if self.where == "self" else list(args[1:])
        return {"targets": [w.name(t) for t in tg], "ops": [np.array(o, dtype=complex) for o in args[0]], "joint": safe_joint(w, old)}

    def ensure(self, w, old, new, ghost, obj, args, kwargs, result):
        cl = invariant_clauses(new)
        tn = ghost["targets"]
        cl += frame_clauses(old, new, tn, single=(len(tn) == 1), merged_targets=tn if len(tn) > 1 else ())
        if ghost["joint"] is None:
            return cl
        rho, dims, names = ghost["joint"]
        try:
            rho1, dims1, names1 = live_joint(w, new)
        except ValueError as ex:
            return cl + [Clause("C06", "joint-state-readable", False, str(ex))]
        if names1 != names or dims1 != dims:
            return cl + [Clause("C06", "same-subsystems-and-dimensions", False, f"{names}{dims} -> {names1}{dims1}")]
        try:
            exp = S.spec_kraus(rho, dims, [names.index(t) for t in tn], ghost["ops"])
        except ValueError as ex:
            return cl + [Clause("C06", "operators-fit-target-dimensions", False, str(ex))]
        cl.append(state_clause("C06", "joint-state-is-sum K rho K^dagger", exp, rho1, tol=1e-6 if S.is_pure(exp, 1e-5) else TOL))
        cl.append(Clause("C06", "unit-trace", abs(np.trace(rho1).real - 1) < 1e-7, f"trace {np.trace(rho1).real:.9f}"))
        # representation: density matrix unless provably pure
        for t in tn:
            b = new.block_of(t)
            if b is None:
                continue
            r = W.block_rho(b)
            pure = abs(np.trace(r @ r).real - 1) < 1e-5
            cl.append(Clause("C06", "reported-as-density-matrix-unless-pure", b.level == 2 or pure,
                             f"{b.where}: level {b.level}, purity {np.trace(r @ r).real:.6f}"))
        return cl

    def raises(self, w, old, new, ghost, obj, args, kwargs, exc):
        return [Clause("C06", "valid-channel-does-not-raise", False, f"{type(exc).__name__}: {exc}")] + invariant_clauses(new)


# ------------------------------------------------------------------------------------------------ resize
class Resize(Contract):
    """C10: up = zero padding, state kept; down = success with no population removed, or failure with
    state and dimension untouched; reported dimension == Fock axis length."""

    def __init__(self, where):
        self.where = where

    def before(self, w, old, obj, args, kwargs):
        if self.where == "self":
            f, nd = obj, args[0]
        elif self.where == "env":
            f, nd = obj.fock, args[0]
        else:
            f, nd = args[1], args[0]
        return {"fock": w.name(f), "new": int(nd), "joint": safe_joint(w, old)}

    def ensure(self, w, old, new, ghost, obj, args, kwargs, result):
        cl = invariant_clauses(new)
        fn = ghost["fock"]
        cl += frame_clauses(old, new, [fn], single=True)
        if ghost["joint"] is None or fn not in old.live:
            return cl
        rho, dims, names = ghost["joint"]
        try:
            rho1, dims1, names1 = live_joint(w, new)
        except ValueError as ex:
            return cl + [Clause("C10", "joint-state-readable", False, str(ex))]
        i = names.index(fn)
        d_old, d_new = dims[i], dims1[i]
        rep_dim = new.sub[fn]["dims"]
        b = new.block_of(fn)
        cl.append(Clause("C10", "reported-dimension-equals-axis-length", rep_dim < 0 or rep_dim == d_new, f"{fn}: dimensions {rep_dim}, axis {d_new}"))
        if result is True:
            cl.append(Clause("C10", "successful-resize-sets-the-requested-dimension", rep_dim == ghost["new"], f"{rep_dim} vs requested {ghost['new']}"))
            want = list(dims)
            want[i] = d_new
            p = W.pad_rho(rho, dims, want)
            if p is None:
                cl.append(Clause("C10", "successful-shrink-removes-no-population", False,
                                 f"{fn}: {d_old} -> {d_new} cut off populated levels"))
            elif want == dims1:
                cl.append(state_clause("C10", "resize-keeps-the-state-(zero-padding-only)", p, rho1))
        elif result is False:
            cl.append(Clause("C10", "failed-resize-leaves-the-dimension", new.sub[fn]["dims"] == old.sub[fn]["dims"],
                             f"{old.sub[fn]['dims']} -> {new.sub[fn]['dims']}"))
            if dims1 == dims:
                cl.append(state_clause("C10", "failed-resize-leaves-the-state", rho, rho1))
            else:
                cl.append(Clause("C10", "failed-resize-leaves-the-state", False, f"dims {dims} -> {dims1}"))
        else:
            cl.append(Clause("C10", "resize-returns-a-bool", False, repr(result)))
        return cl

    def raises(self, w, old, new, ghost, obj, args, kwargs, exc):
        return [Clause("C10", "resize-does-not-raise", False, f"{type(exc).__name__}: {exc}")] + invariant_clauses(new)


def table(L, BaseState):
    t = [
        (BaseState, "trace_out", TraceOut("self")),
        (L.Envelope, "trace_out", TraceOut("env")),
        (L.CompositeEnvelope, "trace_out", TraceOut("ce")),
        (L.Envelope, "combine", Structural("combine", "envall")),
        (L.Envelope, "reorder", Structural("reorder", "envall")),
        (L.Envelope, "expand", Structural("expand", "envall")),
        (L.Envelope, "contract", Structural("contract", "envall")),
        (L.CompositeEnvelope, "combine", Structural("combine", "ce")),
        (L.CompositeEnvelope, "reorder", Structural("reorder", "ce")),
        (L.CompositeEnvelope, "expand", Structural("expand", "ce")),
        (L.CompositeEnvelope, "contract", Structural("contract", "ce")),
        (L.Fock, "expand", Structural("expand", "self")),
        (L.Fock, "contract", Structural("contract", "self")),
        (L.Polarization, "expand", Structural("expand", "self")),
        (L.Polarization, "contract", Structural("contract", "self")),
        (L.CustomState, "expand", Structural("expand", "self")),
        (L.CustomState, "contract", Structural("contract", "self")),
        (L.Fock, "measure", Measure("self")),
        (L.Polarization, "measure", Measure("self")),
        (L.CustomState, "measure", Measure("self")),
        (L.Envelope, "measure", Measure("env")),
        (L.CompositeEnvelope, "measure", Measure("ce")),
        (BaseState, "measure_POVM", MeasurePOVM("self")),
        (L.CustomState, "measure_POVM", MeasurePOVM("self")),
        (L.Envelope, "measure_POVM", MeasurePOVM("env")),
        (L.CompositeEnvelope, "measure_POVM", MeasurePOVM("ce")),
        (BaseState, "apply_kraus", ApplyKraus("self")),
        (L.CustomState, "apply_kraus", ApplyKraus("self")),
        (L.Envelope, "apply_kraus", ApplyKraus("env")),
        (L.CompositeEnvelope, "apply_kraus", ApplyKraus("ce")),
        (L.Fock, "resize", Resize("self")),
        (L.Envelope, "resize_fock", Resize("env")),
        (L.CompositeEnvelope, "resize_fock", Resize("ce")),
    ]
    return t
