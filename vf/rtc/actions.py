"""Actions of engine-B cells: JSON descriptors -> calls of the real public API."""
from __future__ import annotations

from typing import Any, Dict, List

import numpy as np

from . import spec as S
from . import world as W


def contexts(name: str):
    import jax.numpy as jnp
    J = lambda a: jnp.array(np.asarray(a, dtype=complex))
    table = {
        "ladder": {"a": lambda dims: J(S.annihilation(dims[0])), "ad": lambda dims: J(S.creation(dims[0])),
                   "n": lambda dims: J(S.number(dims[0]))},
        "two": {"n0": lambda dims: J(S.number(dims[0])), "n1": lambda dims: J(S.number(dims[1])),
                "i0": lambda dims: J(np.eye(dims[0])), "i1": lambda dims: J(np.eye(dims[1])),
                "a0": lambda dims: J(S.annihilation(dims[0])), "ad0": lambda dims: J(S.creation(dims[0])),
                "a1": lambda dims: J(S.annihilation(dims[1])), "ad1": lambda dims: J(S.creation(dims[1])),
                "x": lambda dims: J(S.X), "z": lambda dims: J(S.Z), "h": lambda dims: J(S.H)},
        "three": {"x": lambda dims: J(S.X), "z": lambda dims: J(S.Z), "h": lambda dims: J(S.H), "i": lambda dims: J(S.I2),
                  "n0": lambda dims: J(S.number(dims[0])), "i0": lambda dims: J(np.eye(dims[0])),
                  "g2": lambda dims: J(_gen(dims[2], 5)), "g1": lambda dims: J(_gen(dims[1], 6)), "g0": lambda dims: J(_gen(dims[0], 7))},
        "custom": {"g": lambda dims: J(_gen(dims[0], 3))},
        # custom states keep their dimension; Expression composite types pass dims == 1 for them, so the context fixes it
        "twoc": {"z": lambda dims: J(S.Z), "gc1": lambda dims: J(_gen(5, 8))},
        "threec": {"z": lambda dims: J(S.Z), "x": lambda dims: J(S.X), "gc1": lambda dims: J(_gen(5, 9))},
    }
    return table[name]


def _gen(d, seed):
    """A fixed Hermitian generator of dimension d (expm(1j*g) is unitary)."""
    r = np.random.default_rng(seed)
    A = r.normal(size=(d, d)) + 1j * r.normal(size=(d, d))
    return (A + A.conj().T) / 2


def unitary(d, seed):
    r = np.random.default_rng(seed)
    return np.linalg.qr(r.normal(size=(d, d)) + 1j * r.normal(size=(d, d)))[0]


def make_operation(a: Dict[str, Any], w, targets):
    import jax.numpy as jnp
    from photon_weave.operation import (CompositeOperationType, CustomStateOperationType, FockOperationType,
                                        Operation, PolarizationOperationType)
    fam = {"Fock": FockOperationType, "Polarization": PolarizationOperationType,
           "Custom": CustomStateOperationType, "Composite": CompositeOperationType}[a["fam"]]
    typ = getattr(fam, a["type"])
    params = dict(a.get("params", {}))
    kw: Dict[str, Any] = {}
    for k, v in params.items():
        if k == "operator":           # {"unitary": seed} | {"matrix": [[...]]} | {"nonunitary": seed}
            d = int(np.prod([W.dim_of(t) for t in targets]))
            if "unitary" in v:
                m = unitary(d, v["unitary"])
            elif "nonunitary" in v:
                r = np.random.default_rng(v["nonunitary"])
                m = r.normal(size=(d, d)) + 1j * r.normal(size=(d, d))
            else:
                m = np.array(v["matrix"], dtype=complex)
            kw[k] = jnp.array(m)
        elif k == "context":
            kw[k] = contexts(v)
        elif k == "expr":
            kw[k] = _tuplify(v)
        elif k == "state_types":
            kw[k] = tuple(v)
        elif isinstance(v, dict) and "re" in v:
            kw[k] = complex(v["re"], v["im"])
        else:
            kw[k] = v
    return Operation(typ, **kw)


def _tuplify(x):
    if isinstance(x, list):
        return tuple(_tuplify(y) for y in x)
    if isinstance(x, dict) and "re" in x:
        return complex(x["re"], x["im"])
    if isinstance(x, dict) and "pi" in x:
        return float(x["pi"]) * np.pi
    return x


def perform(a: Dict[str, Any], w, rng, rec) -> List[Dict[str, Any]]:
    kind = a["kind"]
    tg = [w.objs[n] for n in a.get("targets", [])]
    if kind == "op":
        cache = getattr(w, "_op_cache", None)
        if cache is None:
            cache = w._op_cache = {}
        extra = []
        if a.get("reuse") and a["reuse"] in cache:
            op, snap = cache[a["reuse"]]
        else:
            op = make_operation(a, w, tg)
            snap = {k: np.array(v).copy() for k, v in op.kwargs.items() if hasattr(v, "shape")}
            if a.get("reuse"):
                cache[a["reuse"]] = (op, snap)
        entry = a["entry"]
        if entry == "self":
            tg[0].apply_operation(op)
        elif entry == "env":
            tg[0].envelope.apply_operation(op, *tg)
        else:
            W.ce_of(w, tg[0]).apply_operation(op, *tg)
        for k, before in snap.items():
            same = np.array_equal(np.array(op.kwargs[k]), before)
            extra.append({"prop": "C15", "clause": "user-supplied-arrays-are-not-modified", "ok": bool(same),
                          "detail": "" if same else f"kwargs[{k!r}] changed", "method": "Operation"})
        return extra
    from . import actions2
    return actions2.perform(a, w, rng, rec, tg)
