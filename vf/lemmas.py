"""Lean lemma library (DESIGN section 5): obligations with back end `lean`.  The file is compiled by `lean` (Mathlib);
the verdict is cached under .cache/lean keyed by the SHA-256 of the file (setup.sh warms the cache)."""
from __future__ import annotations

import hashlib
import re
import shutil
import subprocess
import time

from vf import common
from vf.common import Obligation

LEAN_FILE = common.VERIF / "lemmas" / "Lemmas.lean"
CACHE = common.VERIF / ".cache" / "lean"


def compile_lemmas(timeout=1500):
    """Returns (ok, seconds, message)."""
    src = LEAN_FILE.read_text()
    if re.search(r"\bsorry\b|\baxiom\b|\badmit\b", src):
        return False, 0.0, "the lemma file contains sorry / axiom / admit"
    sha = hashlib.sha256(src.encode()).hexdigest()[:20]
    CACHE.mkdir(parents=True, exist_ok=True)
    marker = CACHE / f"{sha}.ok"
    if marker.exists():
        return True, 0.0, f"cached verdict for {sha} (lean accepted this exact file)"
    if shutil.which("lean") is None:
        return None, 0.0, "lean not on PATH"
    t = time.time()
    try:
        p = subprocess.run(["lean", str(LEAN_FILE)], capture_output=True, text=True, timeout=timeout, cwd=str(LEAN_FILE.parent))
    except subprocess.TimeoutExpired:
        return None, time.time() - t, "lean timed out"
    dt = time.time() - t
    out = (p.stdout + p.stderr).strip()
    if p.returncode == 0 and "error" not in out:
        marker.write_text(out[:500])
        return True, dt, "lean accepted the file"
    return False, dt, out[:600]


def theorems():
    return re.findall(r"^theorem\s+(\w+)", LEAN_FILE.read_text(), flags=re.M)


def lemma_obligations(rep, names):
    ok, dt, msg = compile_lemmas()
    have = set(theorems())
    for nm in names:
        oid = f"lemmas/Lemmas.lean::{nm}"
        if nm not in have:
            rep.add_ob(Obligation(oid, "lemmas/Lemmas.lean", "lemma", "lean", "failed", detail="theorem not found in the lemma file"))
            rep.broken.append(f"lemma {nm} missing from lemmas/Lemmas.lean")
            continue
        st = "discharged" if ok else ("unknown" if ok is None else "failed")
        rep.add_ob(Obligation(oid, "lemmas/Lemmas.lean", "lemma", "lean", st, dt / max(1, len(names)), msg))
        if st != "discharged":
            (rep.undecided if ok is None else rep.broken).append(f"Lean lemma {nm}: {msg[:200]}")
    rep.trust("Lean 4.33 kernel + Mathlib (lemma library)")
