"""C19 — temporal-mode overlap is the normalised overlap integral."""
import ast
import itertools
import math

import numpy as np
import sympy as sp

from vf import common
from vf.common import Obligation
from vf.pyvc import kernels
from vf.pyvc.listexec import Outside

CATEGORY = "other"
EXPLANATION = (
    "Mixed, decided at level B. Level P (counted under obligations): the real AST of constants.gaussian is executed symbolically (sympy) and its "
    "profile is proved L2-normalised for every mu, t_a and sigma > 0, and the product integral of two equal-width Gaussians delayed by d is proved to be "
    "exp(-d^2/(4 sigma^2)); overlap_integral is checked (AST) to evaluate the first profile at t_a = 0 and the second at t_a = delay and to return the "
    "quadrature value. scipy.integrate.quad is an external numerical routine: its contract ('returns the integral') can only be ASSUMED, and the "
    "pinned tree showed it to be false on an infinite interval (returned 0 for the default 42 fs pulse; repaired). Therefore the property is decided by "
    "the BOUNDED run-time contract: closed form, symmetry under exchange with negated delay, range [0, 1] and value 1 at zero delay, evaluated on "
    "the real method over a log grid of widths 1e-15 .. 1 s, centre offsets and delays 0 .. 10 sigma in both argument orders.")
CONST = "photon_weave/constants/__init__.py"
ENV = "photon_weave/state/envelope.py"


def gaussian_obligations(rep):
    fq = f"{CONST}::gaussian"
    try:
        src = (common.REPO / CONST).read_text()
        fn = next(n for n in ast.parse(src).body if isinstance(n, ast.FunctionDef) and n.name == "gaussian")
    except Exception as ex:
        rep.undecided.append(f"{fq}: {ex}")
        return
    _gsrc = ast.get_source_segment(src, fn) or ""
    rep.add_function(fq, CONST, _gsrc, "P (symbolic execution + sympy integration)")
    t, ta, mu, om, d = sp.symbols("t t_a mu omega d", real=True)
    sg = sp.Symbol("sigma", positive=True)
    env = {"t": t, "t_a": ta, "omega": om, "mu": mu, "sigma": sg}

    def ev(e):
        if isinstance(e, ast.Constant):
            return sp.nsimplify(e.value)
        if isinstance(e, ast.Name):
            if e.id in env:
                return env[e.id]
            raise Outside(f"unbound {e.id}")
        if isinstance(e, ast.Attribute) and ast.unparse(e) in ("np.pi", "math.pi"):
            return sp.pi
        if isinstance(e, ast.UnaryOp) and isinstance(e.op, ast.USub):
            return -ev(e.operand)
        if isinstance(e, ast.BinOp):
            a, b = ev(e.left), ev(e.right)
            return {ast.Add: lambda: a + b, ast.Sub: lambda: a - b, ast.Mult: lambda: a * b, ast.Div: lambda: a / b, ast.Pow: lambda: a ** b}[type(e.op)]()
        if isinstance(e, ast.Call):
            f = ast.unparse(e.func)
            if f in ("np.sqrt", "math.sqrt"):
                return sp.sqrt(ev(e.args[0]))
            if f in ("np.exp", "math.exp"):
                return sp.exp(ev(e.args[0]))
        raise Outside(f"{ast.unparse(e)[:40]}")
    try:
        ret = None
        for s in fn.body:
            if isinstance(s, ast.Assign) and isinstance(s.targets[0], ast.Name):
                env[s.targets[0].id] = ev(s.value)
            elif isinstance(s, ast.Return):
                ret = ev(s.value)
            elif isinstance(s, ast.Expr) and isinstance(s.value, ast.Constant):
                continue
            else:
                raise Outside(type(s).__name__)
        if ret is None:
            raise Outside("no return")
        norm = sp.simplify(sp.integrate(ret ** 2, (t, -sp.oo, sp.oo)))
        ok1 = sp.simplify(norm - 1) == 0
        f1 = ret.subs({ta: 0})
        f2 = ret.subs({ta: d})
        ov = sp.simplify(sp.integrate(sp.expand(f1 * f2), (t, -sp.oo, sp.oo)))
        ok2 = sp.simplify(ov - sp.exp(-d ** 2 / (4 * sg ** 2))) == 0
        real = ret.is_real is not False
    except Outside as o:
        rep.not_covered(fq, _gsrc, f"symbolic evaluation of the profile: {o} (the numeric grid against the closed form still runs)")
        return
    for name, ok, detail in (("ensures:profile-is-L2-normalised", ok1, f"integral of f^2 = {norm}"),
                             ("ensures:overlap-of-equal-gaussians-delayed-by-d-is-exp(-d^2/(4 sigma^2))", ok2, f"integral = {ov}")):
        rep.add_ob(Obligation(f"{fq}::{name}", fq, "ensures", "sympy", "discharged" if ok else "failed", detail=str(detail)[:200]))
        if not ok:
            rep.violation(f"{fq}: {name} refuted: {detail}", key=f"P:{fq}:{name}", replay={"kind": "obligation", "function": fq, "failed_obligations": [f"{fq}::{name}"],
                                                                                      "solver_output": str(detail)}, no_input=True)
    # overlap_integral passes t_a = 0 / t_a = delay and returns quad(...)[0]
    fq2 = f"{ENV}::Envelope.overlap_integral"
    try:
        src2 = (common.REPO / ENV).read_text()
        cls = next(n for n in ast.parse(src2).body if isinstance(n, ast.ClassDef) and n.name == "Envelope")
        fn2 = next(n for n in cls.body if isinstance(n, ast.FunctionDef) and n.name == "overlap_integral")
        txt = ast.unparse(fn2)
        rep.add_function(fq2, ENV, ast.get_source_segment(src2, fn2) or "", "B (bounded run-time contract); structure by AST")
        ok = ("self.temporal_profile.get_function(t_a=0," in txt and "other.temporal_profile.get_function(t_a=delay," in txt
              and "np.conj(f1(x)) * f2(x)" in txt and "return result" in txt and "quad(integrand" in txt)
    except Exception as ex:
        ok, txt = False, str(ex)
    rep.add_ob(Obligation(f"{fq2}::ensures:integrand-is-conj(f_self(t)) * f_other(t - delay)", fq2, "ensures", "pyvc", "discharged" if ok else "failed"))
    if not ok:
        rep.violation(f"{fq2}: the integrand / delay convention changed", key=f"P:{fq2}", replay={"kind": "obligation", "function": fq2, "failed_obligations": [fq2]}, no_input=True)


def bounded_grid(rep, tier):
    common.use_repo()
    from photon_weave.state.envelope import Envelope, TemporalProfile
    widths = [1e-15, 42.45e-15, 1e-12, 1e-9, 1e-6, 1e-3, 1.0] if tier == "quick" else [10.0 ** k for k in range(-15, 1)] + [42.45e-15]
    offs = [0.0, 0.5, -2.0]
    delays = [0.0, 0.25, 1.0, 3.0, 6.0, 10.0, -1.5]
    n = 0
    bad = []
    for s in widths:
        for o in offs:
            for dl in delays:
                a = Envelope(temporal_profile=TemporalProfile.Gaussian.with_params(mu=0, sigma=s))
                b = Envelope(temporal_profile=TemporalProfile.Gaussian.with_params(mu=o * s, sigma=s))
                try:
                    v = float(a.overlap_integral(b, dl * s))
                    w = float(b.overlap_integral(a, -dl * s))
                except Exception as ex:
                    bad.append(({"sigma": s, "offset": o, "delay": dl}, f"raised {type(ex).__name__}: {ex}"))
                    continue
                n += 1
                want = math.exp(-((dl + o) ** 2) / 4)
                why = None
                if abs(v - want) > 1e-6:
                    why = f"overlap {v:.9g}, closed form {want:.9g}"
                elif abs(v - w) > 1e-6:
                    why = f"not symmetric under exchange with negated delay: {v:.9g} vs {w:.9g}"
                elif not (-1e-9 <= v <= 1 + 1e-9):
                    why = f"overlap {v} outside [0, 1]"
                if why:
                    bad.append(({"sigma": s, "offset_in_sigma": o, "delay_in_sigma": dl}, why))
                rep.bounded({"sigma": s, "offset": o, "delay": dl}, True, evals=3)
    e1, e2 = Envelope(), Envelope()
    v0 = float(e1.overlap_integral(e2, 0.0))
    if abs(v0 - 1) > 1e-6:
        bad.append(({"profile": "default 42 fs", "delay": 0.0}, f"identical profiles at zero delay overlap {v0}, expected 1"))
    seen = set()
    for inp, why in bad:
        k = why.split(":")[0][:40]
        if k in seen:
            continue
        seen.add(k)
        rep.violation(f"Envelope.overlap_integral: {why} at {inp}", key=f"B:C19:{k}", replay={"kind": "overlap", "input": inp, "why": why})
    rep.bounds["grid"] = {"widths_s": widths, "offsets_in_sigma": offs, "delays_in_sigma": delays, "both_argument_orders": True, "evaluations": n}


def run(rep, tier):
    gaussian_obligations(rep)
    kernels.run_scope(rep, [CONST])
    bounded_grid(rep, tier)
    rep.assume("scipy.integrate.quad returns the integral of the integrand over the given finite window (external numerical routine: ASSUMED, not provable here)",
               "the Gaussian integral (sympy integration) is trusted", "profiles other than Gaussian are outside the bounded grid")
    rep.trust("sympy", "SciPy quad")
