"""C12 — the built-in operator library equals its mathematical definitions."""
import ast
import math
import time

import numpy as np
import sympy as sp
import z3

from vf import common
from vf.common import Obligation
from vf.pyvc import engine, kernels, opsexec as O
from vf.pyvc.listexec import Outside
from vf.rtc import spec as S

CATEGORY = "other"
EXPLANATION = (
    "Mixed. Level P (proved for ALL parameters / cut-offs; counted under obligations): symbolic execution of the real constructors of _math/ops.py - "
    "rx, ry, rz, u3 against the textbook entries, unitarity and additivity R(a)R(b)=R(a+b) as polynomial identities modulo cos^2+sin^2=1 (z3 QF_NRA, "
    "second opinion by polynomial reduction); annihilation / creation / number operators at SYMBOLIC cut-off in the banded-matrix domain "
    "(a|n>=sqrt(n)|n-1>, a_dagger=a^H, number=diag(0..d-1), [a,a_dagger]=1 below the cut-off), phase operator diagonal with entries exp(i n theta), "
    "displacement / squeezing generators anti-Hermitian with offsets +-1 / +-2 (unitarity resp. parity follow by the exponential lemma); "
    "the parameter-free gates by evaluation (no input to quantify over); type -> constructor dispatch tables of the four compute_operator "
    "match statements compared with the contract table. Level B (BOUNDED, numeric): displacement / squeezing of the vacuum against the Poissonian "
    "and squeezed-vacuum amplitudes on a grid of complex parameters, Operation(...).operator at target dimensions, numeric cross-check of the "
    "symbolic domains for cut-offs 1..40.")
OPS = "photon_weave/_math/ops.py"


def _fns():
    src = (common.REPO / OPS).read_text()
    tree = ast.parse(src)
    return {n.name: n for n in tree.body if isinstance(n, ast.FunctionDef)}, src


def _record(rep, fq, name, st, backend, detail="", model=None, kind="ensures", secs=0.0):
    rep.add_ob(Obligation(f"{fq}::{name}", fq, kind, backend, st, secs, detail, model))
    return st == "discharged"


def gate_obligations(rep, fns, src):
    th, a, b, phi, om = sp.symbols("theta a b phi omega", real=True)
    Ih = sp.I
    text = {
        "rx_operator": (["theta"], lambda t: sp.Matrix([[sp.cos(t / 2), -Ih * sp.sin(t / 2)], [-Ih * sp.sin(t / 2), sp.cos(t / 2)]])),
        "ry_operator": (["theta"], lambda t: sp.Matrix([[sp.cos(t / 2), -sp.sin(t / 2)], [sp.sin(t / 2), sp.cos(t / 2)]])),
        "rz_operator": (["theta"], lambda t: sp.Matrix([[sp.cos(t / 2) - Ih * sp.sin(t / 2), 0], [0, sp.cos(t / 2) + Ih * sp.sin(t / 2)]])),
    }
    failures = []
    for name, (params, tb) in text.items():
        fq = f"{OPS}::{name}"
        if name not in fns:
            rep.undecided.append(f"{fq} not found")
            continue
        rep.add_function(fq, OPS, ast.get_source_segment(src, fns[name]) or "", "P (symbolic execution + z3 QF_NRA)")
        try:
            M = O.GateEval(fns[name], {params[0]: th}).run()
            Ma = O.GateEval(fns[name], {params[0]: a}).run()
            Mb = O.GateEval(fns[name], {params[0]: b}).run()
            Mab = O.GateEval(fns[name], {params[0]: a + b}).run()
        except Outside as o:
            rep.not_covered(fq, ast.get_source_segment(src, fns[name]) or "", f"gate evaluator: {o} (the numeric comparison with the textbook matrix below still runs)")
            continue
        for label, res in (("equals-textbook-matrix", O.matrix_identity(M, tb(th))), ("unitary", O.matrix_identity(M.H * M, sp.eye(2))),
                           ("additive-R(a)R(b)=R(a+b)", O.matrix_identity(Ma * Mb, Mab))):
            for ent, st, be, model in res:
                if not _record(rep, fq, f"ensures:{label}{ent}", st, be, model=model):
                    failures.append((fq, name, label, ent, st, model))
    # u3
    name = "u3_operator"
    fq = f"{OPS}::{name}"
    if name in fns:
        rep.add_function(fq, OPS, ast.get_source_segment(src, fns[name]) or "", "P (symbolic execution + z3 QF_NRA)")
        try:
            U = O.GateEval(fns[name], {"phi": phi, "theta": th, "omega": om}).run()
            c, s_ = sp.cos(th / 2), sp.sin(th / 2)
            e = lambda x: sp.cos(x) + Ih * sp.sin(x)
            tbU = sp.Matrix([[c, -e(om) * s_], [e(phi) * s_, e(phi + om) * c]])
            for label, res in (("equals-textbook-matrix", O.matrix_identity(U, tbU)), ("unitary", O.matrix_identity(U.H * U, sp.eye(2)))):
                for ent, st, be, model in res:
                    if not _record(rep, fq, f"ensures:{label}{ent}", st, be, model=model):
                        failures.append((fq, name, label, ent, st, model))
        except Outside as o:
            rep.not_covered(fq, ast.get_source_segment(src, fns[name]) or "", f"gate evaluator: {o} (the numeric comparison with the textbook matrix below still runs)")
    return failures


def replay_gate_failure(rep, fns, failure):
    """Turns a refuted gate obligation into a concrete input: scan a grid of angles on the REAL function."""
    fq, name, label, ent, st, model = failure
    common.use_repo()
    import importlib
    ops = importlib.import_module("photon_weave._math.ops")
    f = getattr(ops, name)
    tb = {"rx_operator": S.rx, "ry_operator": S.ry, "rz_operator": S.rz, "u3_operator": S.u3}[name]
    grid = [0.0, 0.3, -1.1, math.pi / 2, math.pi, 2.5, 7.9, -6.0]
    for x in grid:
        for y in (grid if name == "u3_operator" or "additive" in label else [0.0]):
            try:
                if name == "u3_operator":
                    got, want = np.array(f(x, y, 0.7)), tb(x, y, 0.7)
                    inp = {"phi": x, "theta": y, "omega": 0.7}
                elif "additive" in label:
                    got, want = np.array(f(x)) @ np.array(f(y)), np.array(f(x + y))
                    inp = {"a": x, "b": y}
                else:
                    got, want = np.array(f(x)), tb(x)
                    inp = {"theta": x}
                if "unitary" in label:
                    got, want = got.conj().T @ got, np.eye(2)
            except Exception as ex:
                return {"input": {"x": x, "y": y}, "why": f"raised {type(ex).__name__}: {ex}"}
            if np.max(np.abs(got - want)) > 1e-9:
                return {"input": inp, "why": f"{label}: max deviation {np.max(np.abs(got - want)):.3g}"}
    return None


def constant_obligations(rep, fns, src):
    common.use_repo()
    import importlib
    ops = importlib.import_module("photon_weave._math.ops")
    table = {"identity_operator": S.I2, "hadamard_operator": S.H, "x_operator": S.X, "y_operator": S.Y, "z_operator": S.Z, "s_operator": S.S,
             "t_operator": S.T, "sx_operator": S.SX, "controlled_not_operator": S.CNOT, "controlled_z_operator": S.CZ, "swap_operator": S.SWAP,
             "controlled_swap_operator": S.CSWAP}
    bad = []
    vals = {}
    for name, want in table.items():
        fq = f"{OPS}::{name}"
        if name not in fns:
            rep.undecided.append(f"{fq} not found")
            continue
        rep.add_function(fq, OPS, ast.get_source_segment(src, fns[name]) or "", "P (evaluation of a parameter-free function: complete)")
        try:
            got = np.array(getattr(ops, name)(), dtype=complex)
            vals[name] = got
            ok = got.shape == want.shape and np.max(np.abs(got - want)) < 1e-12
            unit = ok and np.max(np.abs(got.conj().T @ got - np.eye(len(got)))) < 1e-12
        except Exception as ex:
            ok = unit = False
            got = str(ex)
        _record(rep, fq, "ensures:equals-textbook-matrix", "discharged" if ok else "failed", "eval", kind="ensures")
        _record(rep, fq, "ensures:unitary", "discharged" if unit else "failed", "eval", kind="ensures")
        if not (ok and unit):
            bad.append((name, "differs from its textbook matrix" if not ok else "is not unitary"))
    rel = [("sx^2 == x", lambda v: v["sx_operator"] @ v["sx_operator"] - v["x_operator"]), ("t^2 == s", lambda v: v["t_operator"] @ v["t_operator"] - v["s_operator"]),
           ("s^2 == z", lambda v: v["s_operator"] @ v["s_operator"] - v["z_operator"]), ("h^2 == 1", lambda v: v["hadamard_operator"] @ v["hadamard_operator"] - np.eye(2))]
    for label, f in rel:
        try:
            ok = np.max(np.abs(f(vals))) < 1e-12
        except Exception:
            ok = False
        _record(rep, f"{OPS}::gate-algebra", f"ensures:{label}", "discharged" if ok else "failed", "eval")
        if not ok:
            bad.append(("gate algebra", label))
    for name, why in bad:
        rep.violation(f"{OPS}::{name} {why}", key=f"P:{OPS}::{name}:constant",
                      replay={"kind": "constant", "function": name, "why": why, "failed_obligations": [f"{OPS}::{name}::ensures:equals-textbook-matrix"]})


def _prove(goal, hyps, timeout=10000):
    s = z3.Solver()
    s.set("timeout", timeout)
    for h in hyps:
        s.add(h)
    for h in O.sq_instances(goal, *hyps):
        s.add(h)
    s.add(z3.Not(goal))
    t = time.time()
    r = s.check()
    model = None
    if r == z3.sat:
        m = s.model()
        model = {str(d): str(m[d]) for d in m.decls() if d.arity() == 0}
    return ("discharged" if r == z3.unsat else "failed" if r == z3.sat else "unknown"), time.time() - t, model


def banded_obligations(rep, fns, src):
    d, i = z3.Int("d"), z3.Int("i")
    base = [d >= 1, 0 <= i, i < d]
    fails = []
    try:
        be = O.BandedEval(fns, d)
        A = be.call_fn("annihilation_operator", [], {"cutoff": d})
        C = be.call_fn("creation_operator", [], {"cutoff": d})
        N = be.call_fn("number_operator", [d], {})
    except Outside as o:
        ladder_src = "\n".join(ast.get_source_segment(src, fns[n]) or "" for n in ("annihilation_operator", "creation_operator", "number_operator") if n in fns)
        rep.not_covered(f"{OPS}::ladder-operators", ladder_src, f"banded-matrix evaluator: {o} (numeric comparison with the textbook operators still runs)")
        return fails
    for n in ("annihilation_operator", "creation_operator", "number_operator", "phase_operator", "displacement_operator", "squeezing_operator"):
        if n in fns:
            rep.add_function(f"{OPS}::{n}", OPS, ast.get_source_segment(src, fns[n]) or "", "P (banded-matrix domain, symbolic cut-off, z3)")
    obs = []
    fq = f"{OPS}::annihilation_operator"
    obs.append((fq, "ensures:size-is-cutoff", z3.simplify(A.d) == d if not z3.is_true(z3.simplify(A.d == d)) else z3.BoolVal(True), [d >= 1]))
    obs.append((fq, "ensures:only-the-first-super-diagonal", z3.BoolVal(set(A.bands) == {1}), []))
    re, im = A.entry(i - 1, 1)
    obs.append((fq, "ensures:a|n>=sqrt(n)|n-1>", z3.And(re == O.sq(i), im == 0), [d >= 1, 1 <= i, i < d]))
    fq = f"{OPS}::creation_operator"
    obs.append((fq, "ensures:only-the-first-sub-diagonal", z3.BoolVal(set(C.bands) == {-1}), []))
    cre, cim = C.entry(i, -1)
    are, aim = A.entry(i - 1, 1)
    obs.append((fq, "ensures:creation-is-the-adjoint-of-annihilation", z3.And(cre == are, cim == -aim), base))
    fq = f"{OPS}::number_operator"
    re, im = N.entry(i, 0)
    obs.append((fq, "ensures:number-is-diag(0..d-1)", z3.And(re == z3.ToReal(i), im == 0), base))
    obs.append((fq, "ensures:number-is-diagonal", z3.BoolVal(set(N.bands) == {0}), []))
    AC, CA = A.matmul(C), C.matmul(A)
    r1, i1 = AC.entry(i, 0)
    r2, i2 = CA.entry(i, 0)
    obs.append((f"{OPS}::ladder", "ensures:[a,a_dagger]=1-below-the-cutoff", z3.And(r1 - r2 == 1, i1 - i2 == 0), [d >= 1, 0 <= i, i < d - 1]))
    obs.append((f"{OPS}::ladder", "ensures:[a,a_dagger]-is-diagonal", z3.BoolVal(set(AC.bands) == {0} and set(CA.bands) == {0}), []))
    # phase operator
    try:
        theta = z3.Real("theta")
        be2 = O.BandedEval(fns, d, extra={})
        P = be2.call_fn("phase_operator", [], {"cutoff": d, "theta": ("scalar", (theta, z3.RealVal(0)))})
        fq = f"{OPS}::phase_operator"
        obs.append((fq, "ensures:phase-operator-is-diagonal", z3.BoolVal(set(P.bands) == {0}), []))
        arg = be2.extra.get("phase_arg")
        if arg is not None:
            are_, aim_ = be2._val(arg[2](i))
            obs.append((fq, "ensures:n-th-entry-is-exp(i*n*theta)", z3.And(are_ == 0, aim_ == z3.ToReal(i) * theta), base))
        else:
            obs.append((fq, "ensures:n-th-entry-is-exp(i*n*theta)", z3.BoolVal(False), []))
    except Outside as o:
        rep.not_covered(f"{OPS}::phase_operator", ast.get_source_segment(src, fns["phase_operator"]) if "phase_operator" in fns else "", f"banded-matrix evaluator: {o}")
    # displacement / squeezing generators
    for name, par, offs in (("displacement_operator", "alpha", {1, -1}), ("squeezing_operator", "zeta", {2, -2})):
        fq = f"{OPS}::{name}"
        try:
            ar, ai = z3.Real("p_re"), z3.Real("p_im")
            be3 = O.BandedEval(fns, d)
            G = be3.call_fn(name, [], {"cutoff": d, par: ("scalar", (ar, ai))})
            if not (isinstance(G, tuple) and G[0] == "expm" and isinstance(G[1], O.Banded)):
                raise Outside("constructor does not end in expm(generator)")
            G = G[1]
            obs.append((fq, f"ensures:generator-has-offsets-{sorted(offs)}-only", z3.BoolVal(set(G.bands) <= offs), []))
            # textbook generator entries (fixes the sign / phase convention): D: alpha a^dagger - conj(alpha) a ; S: (conj(zeta) a^2 - zeta a^dagger^2) / 2
            if name == "displacement_operator":
                lr, li = G.entry(i, -1)     # entry (i, i-1) = alpha sqrt(i)
                obs.append((fq, "ensures:generator-lower-band-is-alpha*sqrt(n)", z3.And(lr == ar * O.sq(i), li == ai * O.sq(i)), [d >= 2, 1 <= i, i < d]))
                ur, ui = G.entry(i, 1)      # entry (i, i+1) = -conj(alpha) sqrt(i+1)
                obs.append((fq, "ensures:generator-upper-band-is-minus-conj(alpha)*sqrt(n+1)", z3.And(ur == -ar * O.sq(i + 1), ui == ai * O.sq(i + 1)), [d >= 2, 0 <= i, i < d - 1]))
            else:
                lr, li = G.entry(i, -2)     # entry (i, i-2) = -zeta/2 sqrt(i-1) sqrt(i)
                obs.append((fq, "ensures:generator-lower-band-is-minus-zeta/2*sqrt((n-1)n)", z3.And(lr == -0.5 * ar * O.sq(i - 1) * O.sq(i), li == -0.5 * ai * O.sq(i - 1) * O.sq(i)),
                            [d >= 3, 2 <= i, i < d]))
                ur, ui = G.entry(i, 2)      # entry (i, i+2) = conj(zeta)/2 sqrt(i+1) sqrt(i+2)
                obs.append((fq, "ensures:generator-upper-band-is-conj(zeta)/2*sqrt((n+1)(n+2))", z3.And(ur == 0.5 * ar * O.sq(i + 1) * O.sq(i + 2), ui == -0.5 * ai * O.sq(i + 1) * O.sq(i + 2)),
                            [d >= 3, 0 <= i, i < d - 2]))
            GH = G.conj().T()
            for o_ in sorted(offs):
                gr, gi = G.entry(i, o_)
                hr, hi = GH.entry(i, o_)
                obs.append((fq, f"ensures:generator-is-anti-Hermitian[offset {o_}]", z3.And(hr == -gr, hi == -gi), base))
        except Outside as o:
            rep.not_covered(fq, ast.get_source_segment(src, fns[name]) if name in fns else "", f"banded-matrix evaluator: {o}")
    for fq, name, goal, hyps in obs:
        st, dt, model = _prove(goal, hyps)
        if not _record(rep, fq, name, st, "z3", model=model, secs=dt):
            fails.append((fq, name, st, model))
    return fails


DISPATCH = {
    ("photon_weave/operation/polarization_operation.py", "PolarizationOperationType"): {
        "I": "identity_operator()", "X": "x_operator()", "Y": "y_operator()", "Z": "z_operator()", "H": "hadamard_operator()", "S": "s_operator()",
        "T": "t_operator()", "SX": "sx_operator()", "RX": "rx_operator(kwargs['theta'])", "RY": "ry_operator(kwargs['theta'])",
        "RZ": "rz_operator(kwargs['theta'])", "U3": "u3_operator(kwargs['phi'], kwargs['theta'], kwargs['omega'])", "Custom": "kwargs['operator']"},
    ("photon_weave/operation/fock_operation.py", "FockOperationType"): {
        "Creation": "creation_operator(dimensions[0])", "Annihilation": "annihilation_operator(dimensions[0])",
        "PhaseShift": "phase_operator(dimensions[0], kwargs['phi'])", "Displace": "displacement_operator(dimensions[0], kwargs['alpha'])",
        "Squeeze": "squeezing_operator(dimensions[0], kwargs['zeta'])", "Identity": "jnp.identity(dimensions[0])",
        "Expresion": "interpreter(kwargs['expr'], kwargs['context'], dimensions)", "Custom": "kwargs['operator']"},
    ("photon_weave/operation/custom_state_operation.py", "CustomStateOperationType"): {
        "Custom": "kwargs['operator']", "Expresion": "interpreter(kwargs['expr'], kwargs['context'], dimensions)"},
    ("photon_weave/operation/composite_operation.py", "CompositeOperationType"): {
        "CXPolarization": "controlled_not_operator()", "SwapPolarization": "swap_operator()", "CSwapPolarization": "controlled_swap_operator()",
        "CZPolarization": "controlled_z_operator()", "Expression": "interpreter(kwargs['expr'], kwargs['context'], dimensions)"},
}


def dispatch_obligations(rep):
    for (rel, cls), want in DISPATCH.items():
        fq = f"{rel}::{cls}.compute_operator"
        try:
            src = (common.REPO / rel).read_text()
            tree = ast.parse(src)
            c = next(n for n in tree.body if isinstance(n, ast.ClassDef) and n.name == cls)
            fn = next(n for n in c.body if isinstance(n, ast.FunctionDef) and n.name == "compute_operator")
        except Exception as ex:
            rep.undecided.append(f"{fq}: {ex}")
            continue
        rep.add_function(fq, rel, ast.get_source_segment(src, fn) or "", "P (match-arm table vs contract table)")
        got = {}
        m = next((s for s in fn.body if isinstance(s, ast.Match)), None)
        if m is None:
            rep.undecided.append(f"{fq}: no match statement")
            continue
        from vf.pyvc import armeval
        fsrc = ast.get_source_segment(src, fn) or ""
        for case in m.cases:
            for arm in armeval.pattern_members(case.pattern):
                body = [s for s in case.body if not (isinstance(s, ast.Expr) and isinstance(s.value, ast.Constant))]
                if len(body) == 1 and isinstance(body[0], ast.Return) and body[0].value is not None:
                    got[arm] = ast.unparse(body[0].value)
                else:
                    got[arm] = "<block>"
        for arm, expr in want.items():
            if got.get(arm) in (None, "<block>"):
                # the arm was restructured (temporaries, several statements): the numeric comparison with the textbook operator below decides
                rep.not_covered(fq, fsrc, f"dispatch arm of {arm} is not a single return expression")
                continue
            ok = got.get(arm) == expr
            _record(rep, fq, f"ensures:{arm}-dispatches-to-{expr.split('(')[0]}", "discharged" if ok else "failed", "pyvc",
                    detail="" if ok else f"arm returns `{got.get(arm)}`, contract `{expr}`")
            if not ok:
                rep.violation(f"{fq}: operation type {arm} is dispatched to `{got.get(arm)}` instead of `{expr}`", key=f"P:{fq}:{arm}",
                              replay={"kind": "dispatch", "path": rel, "type": arm, "got": got.get(arm), "want": expr,
                                      "failed_obligations": [f"{fq}::ensures:{arm}"]}, no_input=True)


def numeric_bounded(rep, tier):
    """BOUNDED numeric part (never counted as proved)."""
    common.use_repo()
    import importlib
    import jax
    jax.config.update("jax_enable_x64", True)
    ops = importlib.import_module("photon_weave._math.ops")
    n = 0
    bad = []
    mags = (0.5, 1.0, 2.0) if tier == "quick" else (0.1, 0.5, 1.0, 1.5, 2.0)
    nph = 8 if tier == "quick" else 16
    for m in mags:
        for k in range(nph):
            al = m * np.exp(2j * np.pi * k / nph)
            D = 60
            n += 2
            v = np.array(ops.displacement_operator(D, al))[:, 0]
            if np.max(np.abs(v[:12] - S.coherent_amplitudes(al, D)[:12])) > 1e-6:
                bad.append(("displacement_operator", {"cutoff": D, "alpha": [al.real, al.imag]}, "vacuum is not mapped to the Poissonian coherent state"))
            z = (m / 2) * np.exp(2j * np.pi * k / nph)
            w = np.array(ops.squeezing_operator(D, z))[:, 0]
            if np.max(np.abs(w[:10] - S.squeezed_vacuum_amplitudes(z, D)[:10])) > 1e-6:
                bad.append(("squeezing_operator", {"cutoff": D, "zeta": [z.real, z.imag]}, "vacuum is not mapped to the even-number squeezed vacuum"))
    for d in range(1, 41 if tier == "quick" else 61):
        n += 1
        a = np.array(ops.annihilation_operator(d))
        c = np.array(ops.creation_operator(d))
        nm = np.array(ops.number_operator(d))
        ok = np.allclose(a, S.annihilation(d)) and np.allclose(c, a.conj().T) and np.allclose(nm, np.diag(np.arange(d)))
        comm = a @ c - c @ a
        ok = ok and np.allclose(np.diag(comm)[:-1], 1) and np.allclose(np.array(ops.phase_operator(d, 0.37)), S.phase(d, 0.37))
        if not ok:
            bad.append(("ladder/number/phase", {"cutoff": d}, "differs from the textbook operator"))
    for t in (-7.3, -1.0, 0.0, 0.4, 3.1, 9.9):
        n += 1
        if not (np.allclose(np.array(ops.rx_operator(t)), S.rx(t)) and np.allclose(np.array(ops.ry_operator(t)), S.ry(t))
                and np.allclose(np.array(ops.rz_operator(t)), S.rz(t)) and np.allclose(np.array(ops.u3_operator(t, 0.3 - t, 2 * t)), S.u3(t, 0.3 - t, 2 * t))):
            bad.append(("rotation gates", {"angle": t}, "differs from the textbook matrix"))
    # Operation(...).operator at the dimension of the target
    from photon_weave.operation import FockOperationType, Operation
    for d in (2, 5, 9):
        for typ, kw, ref in ((FockOperationType.Creation, {}, S.creation), (FockOperationType.Annihilation, {}, S.annihilation),
                             (FockOperationType.PhaseShift, {"phi": 0.6}, lambda dd: S.phase(dd, 0.6)),
                             (FockOperationType.Displace, {"alpha": 0.3 - 0.2j}, lambda dd: S.displace(dd, 0.3 - 0.2j)),
                             (FockOperationType.Squeeze, {"zeta": 0.2 + 0.1j}, lambda dd: S.squeeze(dd, 0.2 + 0.1j))):
            n += 1
            op = Operation(typ, **kw)
            op.dimensions = [d]
            if not np.allclose(np.array(op.operator), ref(d), atol=1e-9):
                bad.append(("Operation.operator", {"type": typ.name, "dimension": d}, "is not the constructor's matrix at the target dimension"))
    for i_, (name, inp, why) in enumerate(bad):
        rep.violation(f"{OPS}::{name} {why} at {inp}", key=f"B:C12:{name}:{why[:30]}", replay={"kind": "numeric", "function": name, "input": inp, "why": why})
    rep.bounded({"numeric_cases": n}, True, evals=n)
    rep.bounded({"numeric_grid": "displacement/squeezing on |param| <= 2, ladder identities for cut-offs 1..40(60)"}, True, evals=1)
    rep.bounds["numeric"] = {"cases": n, "displacement_squeezing_magnitudes": list(mags), "phases": nph, "cutoffs": "1..40 (quick) / 1..60 (thorough)"}


def run(rep, tier):
    kernels.oracle_self_check(rep)
    try:
        fns, src = _fns()
    except Exception as ex:
        rep.undecided.append(f"cannot parse {OPS}: {ex}")
        return
    gfails = gate_obligations(rep, fns, src)
    for f in gfails:
        fq, name, label, ent, st, model = f
        wit = replay_gate_failure(rep, fns, f) if st == "failed" else None
        if wit:
            rep.violation(f"{fq}: {wit['why']} at {wit['input']}", key=f"P:{fq}:{label}",
                          replay={"kind": "gate", "function": name, "input": wit["input"], "why": wit["why"],
                                  "failed_obligations": [f"{fq}::ensures:{label}{ent}"], "solver_output": model})
        elif st == "failed":
            rep.violation(f"{fq}: obligation {label}{ent} refuted", key=f"P:{fq}:{label}",
                          replay={"kind": "obligation", "function": name, "failed_obligations": [f"{fq}::ensures:{label}{ent}"], "solver_output": model}, no_input=True)
        else:
            rep.undecided.append(f"{fq}: {label}{ent} = {st}")
    constant_obligations(rep, fns, src)
    bfails = banded_obligations(rep, fns, src)
    if bfails:
        # concrete search on the real constructors for a failing cut-off
        numeric_bounded(rep, tier)
        if not rep.violations:
            for fq, name, st, model in bfails:
                if st == "failed":
                    rep.violation(f"{fq}: obligation {name} refuted", key=f"P:{fq}:{name}",
                                  replay={"kind": "obligation", "function": fq, "failed_obligations": [f"{fq}::{name}"], "solver_output": model}, no_input=True)
                else:
                    rep.undecided.append(f"{fq}: {name} = {st}")
    else:
        numeric_bounded(rep, tier)
    dispatch_obligations(rep)
    from vf import lemmas
    lemmas.lemma_obligations(rep, ["exp_commutes_of_generator_commutes"])
    kernels.run_scope(rep, [OPS])
    rep.obligation_samples.append({"examples": ["rx: additive-R(a)R(b)=R(a+b)[0,1]", "number-is-diag(0..d-1) for symbolic d", "[a,a_dagger]=1-below-the-cutoff"]})
    rep.assume("machine arithmetic treated as mathematical (float / complex128 as real / complex numbers)",
               "jnp.cos/sin/exp/sqrt/diag/arange/matmul/conjugate denote the mathematical functions; expm (JAX Pade approximant) is the matrix exponential",
               "Lemma (written argument, DESIGN section 5): exp of an anti-Hermitian generator is unitary; a generator with offsets +-2 only preserves parity")
    rep.trust("z3 (QF_NRA)", "sympy polynomial reduction (second opinion)", "pyvc gate / banded evaluators (own code; numeric cross-check for cut-offs 1..40 on every run)")
