"""C07 — every stored state is a valid normalised quantum state of its claimed form."""
from vf import common
from vf.pyvc import kernels
from vf.rtc import morecells, opcells
from . import bcommon as B

CATEGORY = "other"
EXPLANATION = B.MIXED + (
    "C07 is the invariant half of the induction (DESIGN section 2): well_formed (label in range / unit-norm column vector / Hermitian positive "
    "semidefinite unit-trace matrix, shape == product of member dimensions, level tag == representation, all members report the block's level) is a "
    "postcondition of EVERY method contract. P: the einsum patterns are proved shape-preserving (label lists of the result have the lengths of the "
    "operand, proved for all n), definedness on all paths. B: the C07 clause evaluated after every contract-checked call of a sample of all cell "
    "families (operations incl. non-unitary operators through the renormalising types, channels, measurements with every outcome branch, POVMs, "
    "structural calls, resizes, rejected calls), with contraction enabled and disabled.")


def run(rep, tier):
    kernels.oracle_self_check(rep)
    kernels.run_generators(rep, ["apply_operator_vector", "apply_operator_matrix", "reorder_vector", "reorder_matrix"])
    kernels.run_scope(rep, B.STATE_FILES)
    from vf import lemmas
    lemmas.lemma_obligations(rep, ["unitary_conj_trace", "conj_isHermitian", "complete_set_preserves_trace"])
    seed = common.seed()
    # quick: every third cell, then capped by run_b; thorough: every fourth cell of each family, uncapped (each family is run in full by the
    # thorough check of the property that owns it)
    k = 3 if tier == "quick" else 4
    rep.bounds["family_stride"] = k
    plain = (opcells.single_target_cells(tier, seed)[::k] + opcells.multi_target_cells(tier, seed)[::k] + morecells.structural_cells(tier, seed)[::k + 1]
             + morecells.kraus_cells(tier, seed)[::k] + morecells.resize_cells(tier, seed)[::k + 1] + morecells.trace_out_cells(tier, seed)[::k + 2]
             + morecells.invalid_cells(tier, seed)[::k + 1] + opcells.autodim_cells(tier, seed)[::k])
    B.run_b(rep, plain, ["C07"], tier=tier)
    if tier == "thorough":
        from vf.rtc import histories
        B.run_b(rep, histories.history_cells(tier, seed), ["C07"], explore=True, tier=tier)
    B.run_b(rep, morecells.stale_cache_cells(tier, seed) + morecells.three_space_cells(tier, seed), ["C07"], explore=True, tier=tier)
    B.run_b(rep, morecells.measure_cells(tier, seed)[::k] + morecells.povm_cells(tier, seed)[::k] + morecells.after_measure_cells(tier, seed)[::k],
            ["C07"], explore=True, tier=tier)
