"""C05 — collapse and retirement after measurement."""
from vf import common
from vf.pyvc import kernels
from vf.rtc import morecells
from . import bcommon as B

CATEGORY = "other"
EXPLANATION = B.MIXED + (
    "P: definedness of names on all measurement paths (scope obligations). B: for every forced outcome branch the outcome dictionary holds exactly "
    "the specified subsystems (spec function measured_set written from the docstrings), the survivors hold the projected renormalised state "
    "(independent oracle), destructively measured Fock/polarization subsystems are retired, custom states are never destroyed, non-destructively "
    "measured subsystems stay alive in the basis state of their outcome; follow-up re-measurement and use-after-destroy are checked by sequence cells.")


def run(rep, tier):
    kernels.oracle_self_check(rep)
    kernels.run_scope(rep, B.STATE_FILES)
    from vf.pyvc import tensors
    tensors.run_tensor_contracts(rep, ["C05"])
    kernels.run_delegation(rep, ["measure"])
    B.run_b(rep, morecells.measure_cells(tier, common.seed()), ["C05"], explore=True, tier=tier)
    B.run_b(rep, morecells.after_measure_cells(tier, common.seed()), ["C05"], explore=False, tier=tier)
