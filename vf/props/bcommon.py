"""Shared pieces of the property modules."""
from vf import common
from vf.pyvc import kernels
from vf.rtc import cells as CE, run as RUN

STATE_FILES = ["photon_weave/state/fock.py", "photon_weave/state/polarization.py", "photon_weave/state/custom_state.py",
               "photon_weave/state/envelope.py", "photon_weave/state/composite_envelope.py", "photon_weave/state/base_state.py"]

B_ASSUME = ["level B compares in complex128 at 1e-8 (1e-5 where the library's documented 1e-6 purity tolerance applies); amplitudes sampled "
            "(one seed per cell), structures / operands / flags / outcome branches enumerated",
            "jnp.einsum / reshape / kron / expm / eigh and jax.random.choice are trusted (JAX)",
            "well_formed (C07+C13) is the representation invariant assumed of pre-states; pre-states are constructed, then checked well-formed"]

MIXED = ("Mixed. Level P obligations (proved for all inputs by pyvc+z3 or decided by static scope/dataflow analysis of the real AST) are counted under "
         "obligations/discharged. Level B is a BOUNDED enumeration of run-time-checked contracts and is never counted as proved. ")


QUICK_CAP, QUICK_CAP_EXPLORE = 450, 260


def run_b(rep, cells, props, explore=False, tier="quick", cap=None):
    if tier == "quick":
        cap = cap or (QUICK_CAP_EXPLORE if explore else QUICK_CAP)
        if len(cells) > cap:
            # deterministic sample - the thorough tier runs everything.  Small special families (few cells per layout tag, e.g. the
            # stand-alone envelope or stale-cache worlds) are kept whole, the large enumerated families are stride-sampled (rotated by the seed)
            groups = {}
            for c in cells:
                groups.setdefault(c.get("layout", ""), []).append(c)
            keep, rest = [], []
            for tag, g in groups.items():
                (keep if len(g) <= 30 and len(keep) + len(g) <= cap // 3 else rest).extend(g)
            # cells marked `always` (small families whose detection power must not depend on the stride) are kept, up to half of the cap
            always = [c for c in rest if c.get("always")][:cap // 2]
            rest = [c for c in rest if not c.get("always") or c not in always]
            keep = keep + always
            room = cap - len(keep)
            if len(rest) > room:
                step = len(rest) / room
                off = common.seed() % max(1, int(step))
                rest = [rest[min(len(rest) - 1, int(off + i * step))] for i in range(room)]
            cells = keep + rest
            rep.bounds["quick_sampling"] = f"families larger than {cap} cells are stride-sampled in the quick tier (thorough runs all)"
    rep.bounds["cells"] = rep.bounds.get("cells", 0) + len(cells)
    if explore:
        res = RUN.explore_outcomes(None, cells, max_branch=(2 if tier == "quick" else 4), depth=(2 if tier == "quick" else 3))
        rep.bounds["outcome_branches"] = "every outcome of non-zero probability of the first %d draws (at most %d alternatives per draw)" % (
            (2, 2) if tier == "quick" else (3, 4))
    else:
        res = CE.run_cells(cells)
    RUN.evaluate(rep, res, props)
    rep.assume(*B_ASSUME)
    return res
