"""C17 — invalid requests are rejected and leave the system unchanged."""
from vf import common
from vf.pyvc import kernels
from vf.rtc import morecells
from . import bcommon as B
from .c15 import operation_contracts

CATEGORY = "other"
EXPLANATION = B.MIXED + (
    "P: Operation.__init__ raises KeyError for a missing required parameter and writes only fields of the new object before it (nothing shared is "
    "modified before the raise: the type.update() frame obligation of C15); definedness of names on the rejection paths. B: every kind of invalid "
    "request (non trace-preserving / wrong-size Kraus sets, wrong-size POVM and custom operators, operation on the wrong kind of subsystem or on a "
    "subsystem outside the container, annihilating the vacuum, shrinking below the occupied levels, duplicate targets) at every entry point x layout x "
    "level: the call raises (or returns the documented failure value), the joint density matrix of the world is unchanged, the world is well formed, "
    "and a valid continuation satisfies its own contract. Use of destroyed subsystems is covered by the C05 sequences. Deliberately NOT demanded: "
    "'no store before a raise' - expanding, combining or reordering before a late check keeps the physical state, which is all the property asks.")


def kraus_check_obligation(rep):
    """photon_weave._math.ops.kraus_identity_check is the single completeness guard behind every apply_kraus: the quantity it compares with
    the identity must be sum_K K^dagger K itself (complex), for a generic pair of symbolic 2x2 complex operators (sympy)."""
    import ast
    import sympy as sp
    from vf.common import Obligation
    from vf.pyvc import dataflow as D
    from vf.pyvc.listexec import Outside
    rel, q = "photon_weave/_math/ops.py", "kraus_identity_check"
    fq = f"{rel}::{q}"
    try:
        tree, src = D.parse(rel)
        fn = dict(D.functions(tree))[q]
    except Exception as ex:
        rep.undecided.append(f"{fq}: {ex}")
        return
    fsrc = ast.get_source_segment(src, fn) or ""
    rep.add_function(fq, rel, fsrc, "P (symbolic evaluation of the compared quantity, sympy)")

    def cm(name):
        return sp.Matrix(2, 2, lambda i, j: sp.Symbol(f"{name}r{i}{j}", real=True) + sp.I * sp.Symbol(f"{name}i{i}{j}", real=True))
    K1, K2 = cm("k"), cm("l")
    ops_name = fn.args.args[0].arg
    env = {}

    def ev(e):
        if isinstance(e, ast.Name):
            if e.id in env:
                return env[e.id]
            raise Outside(f"name {e.id}")
        if isinstance(e, ast.Constant) and isinstance(e.value, (int, float)):
            return sp.nsimplify(e.value)
        if isinstance(e, ast.Attribute):
            if e.attr == "T":
                return ev(e.value).T
            if e.attr == "real":
                return ev(e.value).applyfunc(sp.re)
            if e.attr == "H":
                return ev(e.value).H
        if isinstance(e, ast.BinOp):
            l, r = ev(e.left), ev(e.right)
            if isinstance(e.op, (ast.MatMult, ast.Mult)):
                return l * r
            if isinstance(e.op, ast.Add):
                return l + r
            if isinstance(e.op, ast.Sub):
                return l - r
        if isinstance(e, ast.Call):
            f = ast.unparse(e.func)
            if f in ("jnp.matmul", "jnp.dot", "np.matmul", "np.dot") and len(e.args) == 2:
                return ev(e.args[0]) * ev(e.args[1])
            if f in ("jnp.conjugate", "jnp.conj", "np.conj", "np.conjugate") and len(e.args) == 1:
                return ev(e.args[0]).conjugate()
            if f in ("jnp.real", "np.real") and len(e.args) == 1:
                return ev(e.args[0]).applyfunc(sp.re)
            if f in ("jnp.abs", "np.abs") and len(e.args) == 1:
                return ev(e.args[0]).applyfunc(sp.Abs)
            if isinstance(e.func, ast.Attribute) and e.func.attr in ("conj", "conjugate") and not e.args:
                return ev(e.func.value).conjugate()
            if f in ("jnp.eye", "np.eye", "jnp.identity", "np.identity"):
                return sp.eye(2)
            if f == "sum" and len(e.args) in (1, 2) and isinstance(e.args[0], (ast.GeneratorExp, ast.ListComp)) and len(e.args[0].generators) == 1:
                g = e.args[0].generators[0]
                if isinstance(g.target, ast.Name) and isinstance(g.iter, ast.Name) and g.iter.id == ops_name and not g.ifs:
                    tot = sp.zeros(2, 2)
                    for K in (K1, K2):
                        env[g.target.id] = K
                        tot = tot + ev(e.args[0].elt)
                    env.pop(g.target.id, None)
                    return tot
        raise Outside(ast.unparse(e)[:60])

    try:
        for st in fn.body:
            if isinstance(st, ast.Expr) and isinstance(st.value, ast.Constant):
                continue
            if isinstance(st, ast.Assign) and len(st.targets) == 1 and isinstance(st.targets[0], ast.Name):
                try:
                    env[st.targets[0].id] = ev(st.value)
                except Outside:
                    env.pop(st.targets[0].id, None)
        cmp_calls = [nd for nd in ast.walk(fn) if isinstance(nd, ast.Call) and ast.unparse(nd.func) in ("jnp.allclose", "np.allclose", "jnp.isclose", "np.isclose") and len(nd.args) >= 2]
        if len(cmp_calls) != 1:
            raise Outside(f"{len(cmp_calls)} allclose comparisons")
        a, b = ev(cmp_calls[0].args[0]), ev(cmp_calls[0].args[1])
    except Outside as o:
        rep.not_covered(fq, fsrc, f"compared quantity: {o}")
        return
    want = K1.H * K1 + K2.H * K2
    d1 = sp.simplify((a - b) - (want - sp.eye(2)))
    d2 = sp.simplify((b - a) - (want - sp.eye(2)))
    ok = d1 == sp.zeros(2, 2) or d2 == sp.zeros(2, 2)
    oid = f"{fq}::ensures:compares-the-complex-sum-of-K^dagger-K-with-the-identity"
    rep.add_ob(Obligation(oid, fq, "ensures", "sympy", "discharged" if ok else "failed",
                          detail="" if ok else f"the compared quantity is `{ast.unparse(cmp_calls[0].args[0])[:60]}` (as defined in the body), not sum_K K^dagger K"))
    if not ok:
        rep.violation(f"{fq}: the completeness guard does not compare sum_K K^dagger K with the identity (e.g. only its real part): Kraus sets with an "
                      "anti-Hermitian... imaginary deviation are accepted", key=f"P:{oid}",
                      replay={"kind": "obligation", "function": fq, "failed_obligations": [oid],
                              "counter_model": "K = [[1, 0.6i], [0, 0.8]]: K^dagger K = I + i[[0, 0.6], [-0.6, 0]]"}, no_input=True)


def run(rep, tier):
    kernels.oracle_self_check(rep)
    operation_contracts(rep)
    kraus_check_obligation(rep)
    kernels.run_scope(rep, B.STATE_FILES + ["photon_weave/operation/operation.py", "photon_weave/_math/ops.py"])
    B.run_b(rep, morecells.invalid_cells(tier, common.seed()), ["C17"], tier=tier)
    B.run_b(rep, morecells.after_measure_cells(tier, common.seed()), ["C05"], explore=False, tier=tier)
