"""C17 — invalid requests are rejected and leave the system unchanged."""
from vf import common
from vf.pyvc import kernels
from vf.rtc import morecells
from . import bcommon as B
from .c15 import operation_contracts

CATEGORY = "other"
EXPLANATION = B.MIXED + (
    "P: Operation.__init__ raises KeyError for a missing required parameter and writes only fields of the new object before it (nothing shared is "
    "modified before the raise: the type.update() frame obligation of C15); definedness of names on the rejection paths. B: every kind of invalid "
    "request (non trace-preserving / wrong-size Kraus sets, wrong-size POVM and custom operators, operation on the wrong kind of subsystem or on a "
    "subsystem outside the container, annihilating the vacuum, shrinking below the occupied levels, duplicate targets) at every entry point x layout x "
    "level: the call raises (or returns the documented failure value), the joint density matrix of the world is unchanged, the world is well formed, "
    "and a valid continuation satisfies its own contract. Use of destroyed subsystems is covered by the C05 sequences. Deliberately NOT demanded: "
    "'no store before a raise' - expanding, combining or reordering before a late check keeps the physical state, which is all the property asks.")


def run(rep, tier):
    kernels.oracle_self_check(rep)
    operation_contracts(rep)
    kernels.run_scope(rep, B.STATE_FILES + ["photon_weave/operation/operation.py", "photon_weave/_math/ops.py"])
    B.run_b(rep, morecells.invalid_cells(tier, common.seed()), ["C17"], tier=tier)
    B.run_b(rep, morecells.after_measure_cells(tier, common.seed()), ["C05"], explore=False, tier=tier)
