"""C16 — the expression interpreter computes the documented algebra, side-effect free (decided by proof)."""
import itertools
import time

import numpy as np
import z3

from vf import common
from vf.common import Obligation
from vf.pyvc import engine, kernels, treeexec
from vf.pyvc.listexec import Outside

CATEGORY = "proof"
EXPLANATION = (
    "Proof by structural induction over the real AST of extra/expression_interpreter.interpreter (pyvc tree executor + z3): on every return path "
    "the result equals the spec function eval_spec (left folds in argument order for add / s_mult / m_mult / kron; sub, div, expm; context lookup "
    "with the dimension list; literals), recursive calls are replaced by the contract (decreases: proper sub-expression), every rejection path is "
    "reached only by a tuple with an unknown head, and no return path is. Frame: no in-place (augmented) update of a value that may alias a "
    "caller-owned leaf (static obligation). A bounded CPython cross-check against an independent evaluator on all expression trees of depth <= 2 "
    "with numeric / NumPy / JAX / context leaves (non-commuting matrices) guards the encoding; it is reported separately and not counted as proved.")
PATH = "photon_weave/extra/expression_interpreter.py"


def run(rep, tier):
    fq = f"{PATH}::interpreter"
    try:
        fn, src, tree = engine.load_function(PATH, "interpreter")
    except Exception as ex:
        rep.undecided.append(f"cannot load interpreter: {ex}")
        return
    rep.add_function(fq, PATH, src, "P (proved by pyvc+z3)")
    obs = []
    ex = None
    try:
        ex = treeexec.TreeExec(fn)
        vcs = ex.run()
        can = z3.Solver(); can.set("timeout", 5000)
        for h in treeexec.spec_axioms() + [treeexec.well_formed(ex.e)]:
            can.add(h)
        r = can.check()
        obs.append(Obligation(f"{fq}::canary:axioms-consistent", fq, "canary", "z3", "discharged" if r != z3.unsat else "failed",
                              detail=f"spec axioms + precondition are not contradictory ({r})"))
        obs.append(Obligation(f"{fq}::cover:every-command-has-a-return-path", fq, "cover", "pyvc",
                              "discharged" if ex.returns >= 9 and ex.raises >= 1 else "failed",
                              detail=f"{ex.returns} return paths, {ex.raises} rejection paths"))
        for vc in vcs:
            st, dt, model, reason = engine.solve(vc.hyps, vc.goal, 15000)
            obs.append(Obligation(f"{fq}::{vc.name}", fq, vc.kind, "z3", st, dt, reason, model))
        obs.append(Obligation(f"{fq}::frame:no-in-place-update-of-possibly-caller-owned-values", fq, "frame", "dataflow",
                              "failed" if ex.aug else "discharged",
                              detail=("augmented assignment at line(s) %s: the accumulator may alias a caller-owned NumPy leaf or a context result "
                                      "(result = interpreter(args[0], ...) returns literal leaves and context values themselves)" % ex.aug) if ex.aug else
                              "no augmented assignment / in-place method call in the body"))
    except Outside as o:
        obs = [Obligation(f"{fq}::subset", fq, "subset", "pyvc", "unknown", detail=str(o))]
    subset_only = len(obs) == 1 and obs[0].kind == "subset"
    for o in obs:
        if not subset_only:
            rep.add_ob(o)
    rep.obligation_samples.append({"function": fq, "obligations": [o.oid.split("::")[-1] for o in obs][:12]})
    kernels.run_scope(rep, [PATH])
    # ---- bounded CPython cross-check / small-scope search (turns a failed obligation into a replayed input)
    failing = cross_check(rep, depth=2 if tier == "quick" else 3)
    bad = [o for o in obs if o.status != "discharged"]
    base = engine.baseline_ids().get(fq, [])
    if failing:
        rep.violation(f"interpreter violates its contract on {failing['expr']}: {failing['why']}",
                      key=f"P:{fq}:{failing['kind']}",
                      replay={"kind": "interpreter", "expr": failing["expr"], "why": failing["why"],
                              "failed_obligations": [o.oid for o in bad],
                              "solver_output": [{"id": o.oid, "status": o.status, "model": o.model, "detail": o.detail} for o in bad]})
    elif bad:
        refuted = [o for o in bad if o.status == "failed" and (o.oid in base or not base)]
        if refuted:
            rep.violation(f"{fq}: obligation(s) refuted: " + ", ".join(o.oid.split("::")[-1] for o in refuted),
                          key=f"P:{fq}:refuted:" + ",".join(sorted(o.oid.split('::')[-1].split('@')[0] for o in refuted)),
                          replay={"kind": "obligation", "path": PATH, "function": "interpreter", "failed_obligations": [o.oid for o in refuted],
                                  "solver_output": [{"id": o.oid, "status": o.status, "model": o.model, "detail": o.detail} for o in refuted]},
                          no_input=True)
        elif subset_only:
            rep.not_covered(fq, src, f"VC generation: {obs[0].detail[:160]} - the bounded CPython cross-check against the documented algebra found no disagreement")
        else:
            rep.undecided.append(f"{fq}: " + "; ".join(f"{o.oid.split('::')[-1]}={o.status} {o.detail[:80]}" for o in bad)[:500])
    rep.assume("jnp.add / subtract / kron, *, @, /, expm are the mathematical operations (uninterpreted in the proof; JAX trusted)",
               "isinstance(expr, tuple) / isinstance(expr, str) partition expressions by kind; context functions are pure",
               "machine arithmetic treated as mathematical")
    rep.trust("z3", "pyvc tree executor (own code; CPython cross-check on every run)")


def cross_check(rep, depth=2):
    common.use_repo()
    import jax
    jax.config.update("jax_enable_x64", True)     # as photon_weave._math.ops does on import; the library always runs in x64
    import jax.numpy as jnp
    from photon_weave.extra.expression_interpreter import interpreter
    from vf.rtc.contracts import spec_eval
    rng = np.random.default_rng(5)
    A = rng.normal(size=(2, 2)) + 1j * rng.normal(size=(2, 2))
    Bm = rng.normal(size=(2, 2)) + 1j * rng.normal(size=(2, 2))
    Cm = rng.normal(size=(2, 2))
    store = {"A": A.copy(), "B": Bm.copy()}
    ctx = {"c": lambda dims: store["A"], "d": lambda dims: jnp.array(Bm) * dims[0]}
    # structured matrices: the natural triggers of "fast paths" (strictly lower / upper triangular, diagonal, Hermitian, zero, identity)
    Lo = np.array([[0.3, 0.0], [0.7 - 0.2j, -0.4]])
    Up = np.array([[0.0, 1.1 + 0.5j], [0.0, 0.0]])
    Dg = np.diag([0.4, -1.3j])
    He = np.array([[0.2, 0.5 - 0.1j], [0.5 + 0.1j, -0.7]])
    leaves = [A, jnp.array(Bm), Cm.copy(), 2.5, 1j, "c", "d", Lo, jnp.array(Up), Dg, He, np.zeros((2, 2)), np.eye(2)]
    dims = [3, 2]
    cmds = [("add", 3), ("add", 1), ("sub", 2), ("s_mult", 3), ("m_mult", 3), ("kron", 3), ("kron", 2), ("expm", 1), ("div", 2)]

    def trees(d):
        if d == 0:
            yield from leaves
            return
        yield from leaves
        subs = list(itertools.islice(trees(d - 1), 0, 20 if d > 1 else None))
        for c, n in cmds:
            for combo in itertools.islice(itertools.product(subs, repeat=n), 0, 60 if d > 1 else 400):
                yield (c,) + tuple(combo)

    n = 0
    for t in trees(depth):
        n += 1
        snap = [(x, np.array(x).copy()) for x in leaves if hasattr(x, "shape")] + [(store["A"], store["A"].copy())]
        try:
            want = spec_eval(t, ctx, dims)
        except Exception:
            continue     # ill-typed tree (shape mismatch); both sides may raise
        if not np.all(np.isfinite(np.array(want))):
            continue     # division by a matrix with zero entries etc.: no defined value to compare
        try:
            got = interpreter(t, ctx, dims)
        except Exception as ex:
            return {"expr": _show(t), "why": f"raised {type(ex).__name__}: {ex}", "kind": "raised"}
        if np.shape(got) != np.shape(want) or not np.allclose(np.array(got), np.array(want), atol=1e-9, rtol=1e-9):
            return {"expr": _show(t), "why": "value differs from the documented algebra", "kind": "value"}
        for obj, before in snap:
            if not np.array_equal(np.array(obj), before):
                return {"expr": _show(t), "why": "an array supplied by the caller was modified", "kind": "frame"}
    bad_heads = [("foo", 1, 2), ("ADD", 1), ("", 2), (3, 4), ("mult", A, A)]
    for t in bad_heads:
        try:
            r = interpreter(t, ctx, dims)
            return {"expr": _show(t), "why": f"unknown command returned a value {type(r).__name__}", "kind": "unknown-head"}
        except Exception:
            pass
    rep.notes.append(f"interpreter CPython cross-check (bounded): {n} trees of depth <= {depth}, {len(bad_heads)} malformed heads")
    rep.bounds["interpreter_cross_check_trees"] = n
    return None


def _show(t):
    if isinstance(t, tuple):
        return "(" + ", ".join(_show(x) for x in t) + ")"
    if hasattr(t, "shape"):
        return f"<{type(t).__module__.split('.')[0]} array {t.shape}>"
    return repr(t)


def frame_only(rep, prop_note="C15"):
    """the part of the interpreter's contract that C15 relies on (`applying an operation never modifies arrays supplied by the user`): no
    augmented assignment / in-place update in the body (an accumulator may alias a caller-owned NumPy leaf or a context result), plus
    the bounded CPython cross-check restricted to the frame clause."""
    import ast as _ast
    fq = f"{PATH}::interpreter"
    try:
        fn, src, tree = engine.load_function(PATH, "interpreter")
    except Exception as ex:
        rep.undecided.append(f"cannot load interpreter: {ex}")
        return
    rep.add_function(fq, PATH, src, "P (frame obligation: dataflow)")
    aug = sorted({nd.lineno for nd in _ast.walk(fn) if isinstance(nd, _ast.AugAssign)}
                 | {nd.lineno for nd in _ast.walk(fn) if isinstance(nd, _ast.Call) and isinstance(nd.func, _ast.Attribute)
                    and nd.func.attr in ("fill", "sort", "put", "itemset", "resize", "setfield") })
    oid = f"{fq}::frame:no-in-place-update-of-possibly-caller-owned-values"
    rep.add_ob(Obligation(oid, fq, "frame", "dataflow", "failed" if aug else "discharged",
                          detail=(f"in-place update at line(s) {aug}: the accumulator may alias a caller-owned NumPy leaf or a context result" if aug
                                  else "no augmented assignment / in-place method call in the body")))
    failing = cross_check(rep, depth=1)
    if failing and failing["kind"] == "frame":
        rep.violation(f"interpreter modifies an array supplied by the user on {failing['expr']}", key=f"P:{fq}:frame",
                      replay={"kind": "interpreter", "expr": failing["expr"], "why": failing["why"], "failed_obligations": [oid] if aug else []})
    elif aug:
        rep.violation(f"{fq}: in-place update at line(s) {aug} may write into a user-supplied array", key=f"P:{oid}",
                      replay={"kind": "obligation", "path": PATH, "function": "interpreter", "failed_obligations": [oid], "solver_output": [f"lines {aug}"]}, no_input=True)
