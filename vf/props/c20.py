"""C20 — product spaces are joined only when needed; bystander blocks are untouched."""
import ast

from vf import common
from vf.common import Obligation
from vf.pyvc import dataflow as D, kernels
from vf.rtc import morecells, opcells
from . import bcommon as B

CATEGORY = "other"
EXPLANATION = B.MIXED + (
    "P: the einsum generators do not mutate their list arguments (frame obligation, part of the generator proofs); the block-selection comprehensions of "
    "CompositeEnvelope.apply_operation / apply_kraus / measure_POVM / trace_out / measure / expand select exactly the product spaces containing an "
    "addressed subsystem (AST: `[p for p in self.states if any(so in p.state_objs for so in <targets>)]`), modulo the C18 site obligations. "
    "B: frame clause on every contract-checked call: blocks containing no addressed subsystem (and no envelope partner the call is specified to "
    "measure) keep members, order, level and bit-identical amplitudes; a single-subsystem action never enlarges a block; a multi-subsystem action's "
    "merged block is exactly the union of the blocks of its operands; a measured subsystem is in no block. Worlds include an unrelated product space "
    "and unrelated composite envelopes.")
COMP = "photon_weave/state/composite_envelope.py"
SELECTORS = ["CompositeEnvelope.apply_operation", "CompositeEnvelope.apply_kraus", "CompositeEnvelope.measure_POVM", "CompositeEnvelope.trace_out",
             "CompositeEnvelope.measure", "CompositeEnvelope.expand"]


def selection_obligations(rep):
    try:
        tree, src = D.parse(COMP)
        fns = dict(D.functions(tree))
    except Exception as ex:
        rep.undecided.append(f"{COMP}: {ex}")
        return
    for q in SELECTORS:
        fq = f"{COMP}::{q}"
        fn = fns.get(q)
        if fn is None:
            rep.undecided.append(f"{fq} not found")
            continue
        rep.add_function(fq, COMP, ast.get_source_segment(src, fn) or "", "P (AST: block-selection comprehension)")
        params = {a.arg for a in fn.args.args} | ({fn.args.vararg.arg} if fn.args.vararg else set())
        comps = [n for n in ast.walk(fn) if isinstance(n, ast.ListComp) and len(n.generators) == 1
                 and ast.unparse(n.generators[0].iter) in ("self.states", "self.product_states") and isinstance(n.elt, ast.Name)
                 and n.elt.id == getattr(n.generators[0].target, "id", None)]
        bad = []
        for c in comps:
            g = c.generators[0]
            ok = len(g.ifs) == 1
            if ok:
                t = ast.unparse(g.ifs[0])
                v = g.target.id
                # any(so in p.state_objs for so in <targets>)  /  all(so in p.state_objs for so in <targets>)
                ok = (t.startswith("any(") or t.startswith("all(")) and f" in {v}.state_objs for " in t
                src_list = t.rsplit(" in ", 1)[-1].rstrip(")")
                ok = ok and (src_list in params or src_list in ("state_list", "states", "ordered_states"))
            if not ok:
                bad.append(f"line {c.lineno}: `{ast.unparse(c)[:80]}`")
        oid = f"{fq}::ensures:selects-exactly-the-product-spaces-holding-an-addressed-subsystem"
        if not comps:
            rep.not_covered(fq, ast.get_source_segment(src, fn) or "", "no block-selection comprehension over self.states / self.product_states found")
            continue
        st = "discharged" if not bad else "failed"
        rep.add_ob(Obligation(oid, fq, "ensures", "pyvc", st, detail="; ".join(bad) or f"{len(comps)} selection comprehension(s)"))
        if st != "discharged":
            rep.violation(f"{fq}: product-space selection is not `those holding an addressed subsystem`: {'; '.join(bad) or 'no selection found'}",
                          key=f"P:{oid}", replay={"kind": "obligation", "function": fq, "failed_obligations": [oid], "solver_output": bad}, no_input=True)


def combine_selection_obligation(rep):
    """CompositeEnvelope.combine: a product space is pulled in only under `if <operand> in <product space>.state_objs`, the operand ranging
    over the caller's operands and the product space over this composite envelope's product spaces."""
    fq = f"{COMP}::CompositeEnvelope.combine"
    try:
        tree, src = D.parse(COMP)
        fn = dict(D.functions(tree))["CompositeEnvelope.combine"]
    except Exception as ex:
        rep.undecided.append(f"{fq}: {ex}")
        return
    rep.add_function(fq, COMP, ast.get_source_segment(src, fn) or "", "P (AST: block selection loop)")
    params = {a.arg for a in fn.args.args} | ({fn.args.vararg.arg} if fn.args.vararg else set())
    parents = {}
    for nd in ast.walk(fn):
        for ch in ast.iter_child_nodes(nd):
            parents[id(ch)] = nd
    appends = [nd for nd in ast.walk(fn) if isinstance(nd, ast.Call) and isinstance(nd.func, ast.Attribute) and nd.func.attr in ("append", "extend", "insert")
               and isinstance(nd.func.value, ast.Name) and nd.func.value.id == "existing_product_states"]
    bad = []
    for a in appends:
        chain = []
        cur = a
        while id(cur) in parents:
            cur = parents[id(cur)]
            chain.append(cur)
        ifs = [c for c in chain if isinstance(c, ast.If)]
        fors = [c for c in chain if isinstance(c, ast.For)]
        ok = len(ifs) == 1 and len(fors) == 2 and a.func.attr == "append" and len(a.args) == 1 and isinstance(a.args[0], ast.Name)
        if ok:
            psv = a.args[0].id
            t = ifs[0].test
            ok = (isinstance(t, ast.Compare) and len(t.ops) == 1 and isinstance(t.ops[0], ast.In) and isinstance(t.left, ast.Name)
                  and ast.unparse(t.comparators[0]) == f"{psv}.state_objs")
            if ok:
                sv = t.left.id
                its = {getattr(f.target, "id", None): ast.unparse(f.iter) for f in fors}
                ok = its.get(sv) in params and its.get(psv) in ("self.product_states", "self.states")
        if not ok:
            bad.append(f"line {a.lineno}: `{ast.unparse(a)[:70]}`")
    oid = f"{fq}::ensures:pulls-in-exactly-the-product-spaces-holding-an-operand"
    if not appends:
        rep.not_covered(fq, ast.get_source_segment(src, fn) or "", "no `existing_product_states.append(...)` selection site found")
        return
    st = "discharged" if not bad else "failed"
    rep.add_ob(Obligation(oid, fq, "ensures", "pyvc", st, detail="; ".join(bad) or f"{len(appends)} selection site(s)"))
    if st != "discharged":
        rep.violation(f"{fq}: product spaces are pulled into the merge by something other than `operand in space.state_objs`: {'; '.join(bad) or 'no selection found'}",
                      key=f"P:{oid}", replay={"kind": "obligation", "function": fq, "failed_obligations": [oid], "solver_output": bad}, no_input=True)


def run(rep, tier):
    kernels.oracle_self_check(rep)
    selection_obligations(rep)
    combine_selection_obligation(rep)
    from vf.pyvc import kronexec
    kronexec.run_combine(rep)
    kernels.run_generators(rep, ["apply_operator_vector", "apply_operator_matrix", "trace_out_matrix", "measure_matrix"])
    seed = common.seed()
    # quick: every third cell, then capped by run_b; thorough: every fourth cell of each family, uncapped (each family is run in full by the
    # thorough check of the property that owns it; all of them together took more than two hours here)
    k = 3 if tier == "quick" else 4
    rep.bounds["family_stride"] = k
    plain = (opcells.single_target_cells(tier, seed)[1::k] + opcells.multi_target_cells(tier, seed)[1::k] + morecells.structural_cells(tier, seed)[1::k + 1]
             + morecells.kraus_cells(tier, seed)[1::k] + morecells.resize_cells(tier, seed)[1::k + 1] + morecells.trace_out_cells(tier, seed)[1::k])
    B.run_b(rep, plain, ["C20"], tier=tier)
    B.run_b(rep, morecells.three_space_cells(tier, seed) + morecells.stale_cache_cells(tier, seed), ["C20"], explore=True, tier=tier)
    B.run_b(rep, morecells.measure_cells(tier, seed)[1::k] + morecells.povm_cells(tier, seed)[1::k], ["C20"], explore=True, tier=tier)
