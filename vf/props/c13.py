"""C13 — the object graph's bookkeeping is always truthful."""
import ast
import concurrent.futures as cf
import multiprocessing as mp

from vf import common
from vf.common import Obligation
from vf.pyvc import dataflow as D, kernels
from vf.rtc import cells as CE, graphcheck as G, morecells, opcells, run as RUN
from . import bcommon as B

CATEGORY = "other"
EXPLANATION = B.MIXED + (
    "P (structural contracts on the real AST): update_all_indices visits every member i of every product space k in order and calls extract((k, i)) and "
    "sets the back pointer (so afterwards index == (k, i), state is None); remove_empty_product_states removes exactly the empty product spaces from a "
    "copy-iterated list (order preserving); append_states is a concatenation that the constructor never calls with other is self; ordering obligation: "
    "wherever both are called, the indices are refreshed AFTER empty product spaces are removed; the constructor refreshes the indices after a merge. "
    "B: (1) EXHAUSTIVE enumeration of construction / merge histories (all sequences of <= 2 CompositeEnvelope(...) calls - 3 in thorough, a 1/7 sample in "
    "quick - over 3 envelopes, 1 custom state and all previously created handles, interleaved with combine / measure calls) with the C13 half of "
    "well_formed, agreement of merged handles and separation of unmerged ones checked after every step; (2) the C13 invariant as postcondition of every "
    "contract-checked call in the operation / measurement / channel / structural cells.")
COMP = "photon_weave/state/composite_envelope.py"


def structural_obligations(rep):
    try:
        tree, src = D.parse(COMP)
        fns = dict(D.functions(tree))
    except Exception as ex:
        rep.undecided.append(f"{COMP}: {ex}")
        return

    def add(q, name, ok, detail=""):
        fq = f"{COMP}::{q}"
        if q in fns:
            rep.add_function(fq, COMP, ast.get_source_segment(src, fns[q]) or "", "P (structural contract on the AST)")
        rep.add_ob(Obligation(f"{fq}::{name}", fq, "ensures", "pyvc", "discharged" if ok else "failed", detail=detail))
        if not ok:
            rep.violation(f"{fq}: {name} refuted: {detail}", key=f"P:{fq}:{name}",
                          replay={"kind": "obligation", "function": fq, "failed_obligations": [f"{fq}::{name}"], "solver_output": detail}, no_input=True)

    q = "CompositeEnvelopeContainer.update_all_indices"
    fn = fns.get(q)
    ok, detail = False, "method not found"
    if fn is not None:
        body = [s for s in fn.body if not (isinstance(s, ast.Expr) and isinstance(s.value, ast.Constant))]
        try:
            outer = body[0]
            inner = outer.body[0]
            calls = [ast.unparse(n) for n in ast.walk(inner) if isinstance(n, ast.Call)]
            ok = (len(body) == 1 and isinstance(outer, ast.For) and ast.unparse(outer.iter) == "enumerate(self.states)"
                  and isinstance(inner, ast.For) and ast.unparse(inner.iter).startswith("enumerate(") and ast.unparse(inner.iter).endswith(".state_objs)")
                  and any(c.endswith(f".extract(({ast.unparse(outer.target.elts[0])}, {ast.unparse(inner.target.elts[0])}))") for c in calls)
                  and any("composite_envelope" in ast.unparse(n) for n in ast.walk(inner) if isinstance(n, ast.Assign)))
            detail = "for k, ps in enumerate(states): for i, so in enumerate(ps.state_objs): so.extract((k, i)); so.composite_envelope = ..."
        except Exception as ex:
            detail = f"different shape: {ex}"
    add(q, "ensures:every-member-i-of-product-space-k-gets-index-(k,i)-and-a-back-pointer", ok, detail)

    q = "CompositeEnvelopeContainer.remove_empty_product_states"
    fn = fns.get(q)
    ok, detail = False, "method not found"
    if fn is not None:
        txt = ast.unparse(fn)
        ok = "for state in self.states[:]" in txt and "state.is_empty" in txt and "self.states.remove(state)" in txt and txt.count("self.states.") == 1
        detail = "iterates a copy, removes exactly the empty product states"
    add(q, "ensures:result-is-the-order-preserving-filter-of-non-empty-product-spaces", ok, detail)

    q = "CompositeEnvelopeContainer.append_states"
    fn = fns.get(q)
    ok = fn is not None and "self.states.extend(other.states)" in ast.unparse(fn) and "self.envelopes.extend(other.envelopes)" in ast.unparse(fn)
    add(q, "ensures:concatenation-of-product-spaces-and-envelopes", ok)
    init = fns.get("CompositeEnvelope.__init__")
    ok, detail = False, ""
    if init is not None:
        txt = ast.unparse(init)
        # every append_states call is guarded against other is self, and the indices are refreshed afterwards
        guarded = all("is not ce_container" in ast.unparse(n.test) for n in ast.walk(init) if isinstance(n, ast.If)
                      and any(isinstance(c, ast.Call) and isinstance(c.func, ast.Attribute) and c.func.attr == "append_states" for s in n.body for c in ast.walk(s))
                      and not any(isinstance(c, ast.Call) and isinstance(c.func, ast.Attribute) and c.func.attr == "append_states" for s in n.orelse for c in ast.walk(s)))
        calls = [n for n in ast.walk(init) if isinstance(n, ast.Call) and isinstance(n.func, ast.Attribute) and n.func.attr == "append_states"]
        in_guard = []
        for n in ast.walk(init):
            if isinstance(n, ast.If) and "is not ce_container" in ast.unparse(n.test):
                in_guard += [c for s in n.body for c in ast.walk(s) if c in calls]
        ok = bool(calls) and all(c in in_guard for c in calls) and "update_all_indices()" in txt
        detail = f"{len(calls)} append_states call(s), {len(in_guard)} guarded by `is not ce_container`; update_all_indices after the merge: {'update_all_indices()' in txt}"
    add("CompositeEnvelope.__init__", "ensures:no-self-append-and-indices-refreshed-after-a-merge", ok, detail)

    # ordering obligation at call sites
    for q, fn in fns.items():
        calls = [(n.lineno, n.func.attr) for n in ast.walk(fn) if isinstance(n, ast.Call) and isinstance(n.func, ast.Attribute)
                 and n.func.attr in ("update_all_indices", "remove_empty_product_states")]
        kinds = {k for _, k in calls}
        if kinds == {"update_all_indices", "remove_empty_product_states"}:
            last_rm = max(l for l, k in calls if k == "remove_empty_product_states")
            last_up = max(l for l, k in calls if k == "update_all_indices")
            add(q, "dataflow:indices-are-refreshed-after-empty-product-spaces-are-removed", last_up > last_rm,
                f"last remove_empty_product_states at line {last_rm}, last update_all_indices at line {last_up}")


def history_part(rep, tier):
    import os
    if os.environ.get("VERIF_P_ONLY") == "1":
        return
    hs = G.histories(tier)
    rep.bounds["construction_histories"] = {"count": len(hs), "exhaustive_up_to_constructions": 3 if tier == "thorough" else 2,
                                            "sample_of_three_step_histories": "every 7th" if tier != "thorough" else "all",
                                            "universe": "3 envelopes, 1 custom state, all earlier handles; combine / measure interleaved"}
    with cf.ProcessPoolExecutor(16, initializer=CE._init_worker, mp_context=mp.get_context("spawn")) as ex:
        res = list(ex.map(G.run_history, hs, chunksize=25))
    for r in res:
        h = r["history"]
        nce = sum(1 for s in h if s[0] == "ce")
        rep.bounded({"history": h}, nce >= 2 or len(h) > nce, evals=len(h))
        shared_custom = sum(1 for s in h if s[0] == "ce" and "c0" in s[1]) >= 2
        for f in r["fails"]:
            pattern = "custom-state-given-to-two-constructors" if shared_custom and f["clause"] in (
                "merged-handles-share-one-container", "container-holds-every-envelope-given-to-its-handles", "merged-handles-see-the-same-contents") else "other"
            rep.violation(f"construction history {h} breaks '{f['clause']}': {f['detail'][:300]}",
                          key=f"B:C13:{f['clause']}:{pattern}:{'' if pattern != 'other' else str(h)[:120]}",
                          replay={"kind": "history", "history": h, "clause": f["clause"], "detail": f["detail"], "pattern": pattern, "method": "CompositeEnvelope.__init__"})


def run(rep, tier):
    structural_obligations(rep)
    kernels.run_scope(rep, [COMP])
    from vf.pyvc import tensors
    tensors.run_tensor_contracts(rep, ["C13"])        # the stored axis order is the member order after reorder / measure
    from vf.pyvc import kronexec
    kronexec.run_combine(rep)
    kronexec.run_envelope_combine(rep)
    history_part(rep, tier)
    seed = common.seed()
    sample = (opcells.single_target_cells(tier, seed)[::9] + opcells.multi_target_cells(tier, seed)[::7] + morecells.structural_cells(tier, seed)[::9]
              + morecells.kraus_cells(tier, seed)[::9] + morecells.trace_out_cells(tier, seed)[::7])
    B.run_b(rep, sample, ["C13"], tier=tier)
    B.run_b(rep, morecells.three_space_cells(tier, seed) + morecells.stale_cache_cells(tier, seed), ["C13"], explore=True, tier=tier)
    B.run_b(rep, morecells.measure_cells(tier, seed)[::4] + morecells.povm_cells(tier, seed)[::6], ["C13"], explore=True, tier=tier)
    from vf.rtc import histories
    hc = histories.history_cells(tier, seed)
    rep.bounds["api_histories"] = {"count": len(hc), "alphabet": 16, "what": "all sequences of <= 2 actions + 1/32 of the 3-action ones + 1/12 of a structural bracket family of 4-action ones (quick); all <= 3, 1/8 of the 4-action ones and the whole bracket family (thorough)"}
    from vf.rtc import run as RUN2
    res = RUN2.explore_outcomes(None, hc, max_branch=2, depth=(2 if tier == "quick" else 3))      # histories are not down-sampled further
    RUN2.evaluate(rep, res, ["C13"])
    rep.assume("A-uid: uuids of distinct objects are distinct")
