"""C11 — passive linear optics conserves photon number."""
import ast
import math

import numpy as np
import z3

from vf import common
from vf.common import Obligation
from vf.pyvc import kernels, opsexec as O
from vf.pyvc.listexec import Outside
from vf.rtc import opcells, spec as S
from . import bcommon as B

CATEGORY = "other"
EXPLANATION = B.MIXED + (
    "P (symbolic cut-offs d1, d2, banded-matrix domain over the real AST of CompositeOperationType.compute_operator): every tensor term kron(X, Y) of "
    "the beam-splitter generator has band offsets that sum to zero, i.e. every non-zero entry ((i,j),(k,l)) has i+j == k+l (it commutes with the total "
    "number); the generator is Hermitian; the operator is expm(1j * eta * generator); compute_dimensions returns total+1 for both modes; phase_operator is "
    "diagonal with entries exp(i n theta). Lemma (Lean / Mathlib, lemmas/Lemmas.lean): exp of a generator commuting with N commutes with N; a cascade of commuting elements commutes with N. "
    "B (bounded): joint state == independent SU(2) mode transformation (polynomial expansion, not the matrix exponential) and the total-number "
    "distribution is unchanged, on number states, superpositions, mixtures and modes entangled with polarization / other modes, angles incl. negative and "
    "> 2 pi, cascades on three modes; Mach-Zehnder built as in examples/: sampled detection probabilities == sin^2(phi/2), cos^2(phi/2).")
COMP = "photon_weave/operation/composite_operation.py"
OPS = "photon_weave/_math/ops.py"


def generator_obligations(rep):
    fq = f"{COMP}::CompositeOperationType.compute_operator[NonPolarizingBeamSplitter]"
    try:
        src = (common.REPO / COMP).read_text()
        tree = ast.parse(src)
        cls = next(n for n in tree.body if isinstance(n, ast.ClassDef) and n.name == "CompositeOperationType")
        fn = next(n for n in cls.body if isinstance(n, ast.FunctionDef) and n.name == "compute_operator")
        m = next(s for s in fn.body if isinstance(s, ast.Match))
        arm = next(c for c in m.cases if ast.unparse(c.pattern).endswith("NonPolarizingBeamSplitter"))
        osrc = (common.REPO / OPS).read_text()
        fns = {n.name: n for n in ast.parse(osrc).body if isinstance(n, ast.FunctionDef)}
    except Exception as ex:
        rep.undecided.append(f"{fq}: cannot locate the beam-splitter arm ({ex})")
        return
    rep.add_function(fq, COMP, "\n".join(ast.unparse(s) for s in arm.body), "P (banded-matrix domain, symbolic cut-offs, z3)")
    d0, d1, i = z3.Int("d0"), z3.Int("d1"), z3.Int("i")
    env = {}
    terms = None
    ret = None
    obs = []
    try:
        be = O.BandedEval(fns, d0)
        dim = {"dimensions[0]": d0, "dimensions[1]": d1}
        for st in arm.body:
            if isinstance(st, ast.Assign) and isinstance(st.targets[0], ast.Name):
                v = st.value
                name = st.targets[0].id
                def kterms(e):
                    """list of (X, Y) Kronecker terms denoted by an expression (kron call, named term, sum of those)"""
                    if isinstance(e, ast.Call) and ast.unparse(e.func) in ("jnp.kron", "np.kron") and len(e.args) == 2 \
                            and all(isinstance(a, ast.Name) and a.id in env and not isinstance(env[a.id], (list, str)) for a in e.args):
                        return [(env[e.args[0].id], env[e.args[1].id])]
                    if isinstance(e, ast.Name) and isinstance(env.get(e.id), list):
                        return list(env[e.id])
                    if isinstance(e, ast.BinOp) and isinstance(e.op, ast.Add):
                        return kterms(e.left) + kterms(e.right)
                    raise Outside(f"`{ast.unparse(e)[:50]}` is not a sum of kron(X, Y) terms")
                if isinstance(v, ast.Call) and isinstance(v.func, ast.Name) and v.func.id in fns and len(v.args) == 1 and ast.unparse(v.args[0]) in dim:
                    env[name] = be.call_fn(v.func.id, [dim[ast.unparse(v.args[0])]], {})
                else:
                    env[name] = kterms(v)
                    terms = env[name]
                    gen_last = name
            elif isinstance(st, ast.Return):
                ret = ast.unparse(st.value)
            else:
                raise Outside(f"{type(st).__name__} in the beam-splitter arm")
        if terms is None:
            raise Outside("no generator found")
    except Outside as o:
        rep.not_covered(fq, "\n".join(ast.unparse(s) for s in arm.body), f"beam-splitter arm: {o}")
        return
    gen_name = gen_last
    obs.append(("ensures:operator-is-expm(1j*eta*generator)", z3.BoolVal(ret == f"expm(1j * kwargs['eta'] * {gen_name})"), []))
    # conservation: offsets of every term sum to zero
    cons = all((ox + oy) == 0 for X, Y in terms for ox in X.bands for oy in Y.bands)
    obs.append(("ensures:every-nonzero-entry-conserves-the-total-number(i+j==k+l)", z3.BoolVal(cons), []))
    obs.append(("ensures:first-factor-acts-on-mode-0-second-on-mode-1", z3.BoolVal(all(z3.eq(z3.simplify(X.d), d0) and z3.eq(z3.simplify(Y.d), d1) for X, Y in terms)), []))
    # Hermitian: the adjoint of term 0 is term 1 (entry-wise) and vice versa
    if len(terms) == 2:
        (X0, Y0), (X1, Y1) = terms
        for lbl, P_, Q_, dd in (("X", X0.conj().T(), X1, d0), ("Y", Y0.conj().T(), Y1, d1)):
            offs = set(P_.bands) | set(Q_.bands)
            for o in sorted(offs):
                pr, pi_ = P_.entry(i, o)
                qr, qi = Q_.entry(i, o)
                obs.append((f"ensures:generator-is-Hermitian[{lbl} offset {o}]", z3.And(pr == qr, pi_ == qi), [dd >= 1, 0 <= i, i < dd]))
    else:
        obs.append(("ensures:generator-is-Hermitian", z3.BoolVal(False), []))
    from vf.props.c12 import _prove
    for name, goal, hyps in obs:
        st, dt, model = _prove(goal, hyps)
        rep.add_ob(Obligation(f"{fq}::{name}", fq, "ensures", "z3", st, dt, model=model))
        if st == "failed":
            rep.violation(f"{fq}: {name} refuted", key=f"P:{fq}:{name}",
                          replay={"kind": "obligation", "function": fq, "failed_obligations": [f"{fq}::{name}"], "solver_output": model}, no_input=True)
        elif st != "discharged":
            rep.undecided.append(f"{fq}: {name} = {st}")
    # cut-off: compute_dimensions returns total + 1 for both modes
    fq2 = f"{COMP}::CompositeOperationType.compute_dimensions[NonPolarizingBeamSplitter]"
    import sympy as _sp
    from vf.pyvc import armeval
    from vf.pyvc.listexec import Outside as _Outside
    try:
        fn2 = next(n for n in cls.body if isinstance(n, ast.FunctionDef) and n.name == "compute_dimensions")
        body2 = armeval.arm_for(fn2, "NonPolarizingBeamSplitter")
        if body2 is None:
            raise _Outside("no match arm for NonPolarizingBeamSplitter")
        got2 = armeval.eval_arm(body2, {"num_quanta": _sp.Symbol("num_quanta_list")})
        txt = [str(g) for g in got2]
        ok = len(got2) == 2 and all(armeval.same(g, _sp.Symbol("total") + 1) for g in got2)
    except (_Outside, StopIteration) as o2:
        rep.not_covered(fq2, ast.get_source_segment(src, cls) or "", f"beam-splitter cut-off arm: {o2}")
        ok, txt = None, []
    if ok is not None:
      rep.add_ob(Obligation(f"{fq2}::ensures:cutoff-is-total-occupation-plus-one-on-both-modes", fq2, "ensures", "pyvc", "discharged" if ok else "failed", detail="; ".join(txt)))
    if ok is False:
        rep.violation(f"{fq2}: the beam-splitter cut-off is not total occupation + 1 on both modes: {txt}", key=f"P:{fq2}",
                      replay={"kind": "obligation", "function": fq2, "failed_obligations": [fq2], "solver_output": txt}, no_input=True)


def su2_oracle_check(rep):
    """The NumPy oracle used at level B (matrix exponential) agrees with the independent SU(2) polynomial expansion."""
    for eta in (0.4, -2.9, math.pi / 4, 7.0):
        for d in (3, 4):
            U1, U2 = S.beamsplitter(d, d, eta), S.su2_beamsplitter(d, d, eta)
            cols = [m * d + n for m in range(d) for n in range(d) if m + n < d]
            if np.max(np.abs(U1[:, cols] - U2[:, cols])) > 1e-10:
                rep.broken.append(f"oracle: expm beam splitter differs from the SU(2) mode transformation (eta={eta}, d={d})")


def run(rep, tier):
    kernels.oracle_self_check(rep)
    su2_oracle_check(rep)
    generator_obligations(rep)
    from vf.props import c12
    try:
        fns, src = c12._fns()
        # phase operator obligations are shared with C12 (diagonal, entries exp(i n theta))
        c12.banded_obligations(rep, {k: v for k, v in fns.items()}, src)
    except Exception as ex:
        rep.undecided.append(f"phase operator obligations: {ex}")
    kernels.run_generators(rep, ["apply_operator_vector", "apply_operator_matrix"])
    from vf import lemmas
    lemmas.lemma_obligations(rep, ["exp_commutes_of_generator_commutes", "cascade_commutes"])
    B.run_b(rep, opcells.optics_cells(tier, common.seed()), ["C11", "C03", "C01"], tier=tier)
    rep.assume("expm (JAX Pade approximant) is the matrix exponential (trusted); machine arithmetic treated as mathematical",
               "Lean lemma instantiation: the Python generator matrices are the lemma's G at every cut-off (generator VCs above); float expm ~ exp is assumed")
    rep.trust("z3", "pyvc banded-matrix evaluator (own code, numeric cross-check in C12)")
