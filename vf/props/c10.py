"""C10 — Fock-space truncation never silently loses state."""
from vf import common
from vf.pyvc import kernels
from vf.rtc import morecells, opcells
from . import bcommon as B

CATEGORY = "other"
EXPLANATION = B.MIXED + (
    "P: the own-state branch of Fock.resize is proved for every dimension, request and state (symbolic execution of the real AST, uninterpreted finite "
    "sequences, num_quanta_* axiomatised as 'highest non-zero index', z3): success => requested dimension, common prefix kept, every dropped entry was zero, "
    "every added entry is zero; failure => state and dimension untouched; trace_out_matrix pattern used for the occupation estimate; definedness. B: resize at the three entry points x levels x state classes "
    "(support touching the top level, empty top level, mixed): success => requested dimension, zero padding only, no population removed; failure => "
    "state and dimension untouched; reported dimension == Fock axis length. Automatic dimension: result compared with the ideal (cut-off + 40) result, "
    "exactly for ladder / phase / beam-splitter operations, up to the documented threshold for displacement / squeezing / expressions (known finding).")


def resize_kernel(rep):
    """Level P: own-state branch of Fock.resize for every dimension, request and state (pyvc resize executor + z3);
    on any undischarged obligation the small-scope search on the REAL method looks for a concrete failing input."""
    import z3
    from vf.common import Obligation
    from vf.pyvc import engine, resizeexec as R
    from vf.pyvc.listexec import Outside
    rel, q = "photon_weave/state/fock.py", "Fock.resize"
    fq = f"{rel}::{q}"
    try:
        fn, src, _ = engine.load_function(rel, q)
    except Exception as ex:
        rep.undecided.append(f"{fq}: {ex}")
        return
    rep.add_function(fq, rel, src, "P (proved by pyvc+z3), own-state branch")
    obs = []
    try:
        ex = R.ResizeExec(fn)
        vcs = ex.run()
        can = z3.Solver(); can.set("timeout", 5000)
        for h in ex.pre():
            can.add(h)
        can.add(ex.idxkind == 0, ex.level == R.VECTOR, ex.d0 == 4, ex.n == 2)
        obs.append(Obligation(f"{fq}::cover:requires", fq, "cover", "z3", "discharged" if can.check() == z3.sat else "failed", detail="precondition satisfiable with a shrink request"))
        obs.append(Obligation(f"{fq}::cover:paths", fq, "cover", "pyvc", "discharged" if ex.paths >= 10 and len(vcs) >= 20 else "failed",
                              detail=f"{ex.paths} return paths, {len(vcs)} VCs, delegations {sorted(set(ex.delegations))}"))
        want = {"self.envelope.resize_fock(new_dimensions)", "self.composite_envelope.resize_fock(new_dimensions, self)"}
        obs.append(Obligation(f"{fq}::ensures:stored-elsewhere-delegates-to-the-container", fq, "ensures", "pyvc",
                              "discharged" if set(ex.delegations) == want else "failed", detail=str(sorted(set(ex.delegations)))))
        for vc in vcs:
            st, dt, model, reason = engine.solve(vc.hyps, vc.goal, 15000)
            obs.append(Obligation(f"{fq}::{vc.name}", fq, vc.kind, "z3", st, dt, reason, model))
    except Outside as o:
        obs = [Obligation(f"{fq}::subset", fq, "subset", "pyvc", "unknown", detail=str(o))]
    subset_only = len(obs) == 1 and obs[0].kind == "subset"
    for o in obs:
        if not subset_only:
            rep.add_ob(o)
    rep.obligation_samples.append({"function": fq, "obligations": [o.oid.split("::")[-1] for o in obs][:8]})
    bad = [o for o in obs if o.status != "discharged"]
    if not bad:
        return
    wit = resize_small_scope()
    if wit:
        rep.violation(f"{fq} violates its contract: {wit['why']} on {wit['input']}", key=f"P:{fq}:{wit['why'][:40]}",
                      replay={"kind": "resize", "input": wit["input"], "why": wit["why"], "failed_obligations": [o.oid for o in bad],
                              "solver_output": [{"id": o.oid, "status": o.status, "model": o.model} for o in bad]})
    elif any(o.status == "failed" for o in bad):
        rep.violation(f"{fq}: obligation(s) refuted: " + ", ".join(o.oid.split('::')[-1] for o in bad if o.status == "failed"),
                      key=f"P:{fq}:refuted", replay={"kind": "obligation", "function": fq, "failed_obligations": [o.oid for o in bad],
                                                     "solver_output": [{"id": o.oid, "status": o.status, "model": o.model} for o in bad]}, no_input=True)
    elif subset_only:
        rep.not_covered(fq, src, f"VC generation: {obs[0].detail[:160]} - small-scope search on the real function (d <= 5, all requests, three levels): contract holds")
    else:
        rep.undecided.append(f"{fq}: " + "; ".join(f"{o.oid.split('::')[-1]}={o.status} {o.detail[:60]}" for o in bad)[:400])


def resize_small_scope():
    """all dimensions d <= 5, requests n in [-1, 7], levels L/V/M, highest occupied level q < d (vector: e_q + e_0 mix; matrix: diag)."""
    import numpy as np
    common.use_repo()
    import jax.numpy as jnp
    from photon_weave.state.expansion_levels import ExpansionLevel
    from photon_weave.state.fock import Fock
    for d in range(1, 6):
        for q in range(d):
            for n in range(-1, 8):
                for lv in ("L", "V", "M"):
                    f = Fock()
                    f.dimensions = d
                    if lv == "L":
                        f.state = q
                        before = q
                    elif lv == "V":
                        v = np.zeros((d, 1), dtype=complex)
                        v[q, 0] = 0.6
                        v[0, 0] += 0.8 if q else 0.4
                        v = v / np.linalg.norm(v)
                        f.state, f.expansion_level, before = jnp.array(v), ExpansionLevel.Vector, v
                    else:
                        p = np.zeros(d)
                        p[q] = 0.5
                        p[0] += 0.5
                        m = np.diag(p).astype(complex)
                        if q:
                            m[0, q] = m[q, 0] = 0.25
                        f.state, f.expansion_level, before = jnp.array(m), ExpansionLevel.Matrix, m
                    inp = {"dimension": d, "highest_occupied": q, "new_dimensions": n, "level": lv}
                    try:
                        r = f.resize(n)
                    except Exception as ex:
                        return {"input": inp, "why": f"raised {type(ex).__name__}: {ex}"}
                    after = f.state
                    if r is True:
                        if f.dimensions != n:
                            return {"input": inp, "why": f"success but dimensions == {f.dimensions}"}
                        if lv == "L":
                            if not (0 <= q < n):
                                return {"input": inp, "why": "success but the label is outside the new space"}
                            continue
                        a = np.array(after)
                        if a.shape[0] != n:
                            return {"input": inp, "why": f"success but the array has {a.shape[0]} rows"}
                        mm = min(d, n)
                        same = np.allclose(a[:mm, :mm] if lv == "M" else a[:mm], before[:mm, :mm] if lv == "M" else before[:mm])
                        lost = (np.abs(before[n:]).max() if lv == "V" and n < d else max(np.abs(before[n:, :]).max(), np.abs(before[:, n:]).max()) if lv == "M" and n < d else 0)
                        if not same or lost > 0:
                            return {"input": inp, "why": "success but population was removed / the kept part changed"}
                    elif r is False:
                        if f.dimensions != d or (lv != "L" and not np.array_equal(np.array(after), before)) or (lv == "L" and after != before):
                            return {"input": inp, "why": "failure reported but state or dimension changed"}
                    else:
                        return {"input": inp, "why": f"returned {r!r}"}
    return None


DIM_TABLE = {
    ("photon_weave/operation/fock_operation.py", "FockOperationType"): {
        "Creation": ["num_quanta + 2"], "Annihilation": ["num_quanta + 2"], "PhaseShift": ["num_quanta + 1"], "Identity": ["num_quanta + 1"],
        "Displace": ["Max(estimate, num_quanta + 1)"], "Squeeze": ["Max(estimate, num_quanta + 1)"], "Expresion": ["Max(estimate, num_quanta + 1)"]},
    ("photon_weave/operation/composite_operation.py", "CompositeOperationType"): {
        "NonPolarizingBeamSplitter": ["total + 1", "total + 1"],
        "CXPolarization": ["2", "2"], "SwapPolarization": ["2", "2"], "CZPolarization": ["2", "2"]},
}


def dimension_rule_obligations(rep):
    """Exact dimension rules (C10: 'exactly for ladder, phase and beam-splitter operations'): the match arm of compute_dimensions that
    handles a type (value or or-pattern) is evaluated symbolically (vf/pyvc/armeval.py, sympy) and must return num_quanta + 2 for ladder
    operators (room for one more quantum), num_quanta + 1 for phase / identity, total + 1 on both modes for the beam splitter, 2 per operand for
    polarization gates, max(estimate, num_quanta + 1) for the estimated types (Displace / Squeeze / Expresion)."""
    import ast
    import sympy as sp
    from vf.common import Obligation
    from vf.pyvc import armeval
    from vf.pyvc.listexec import Outside
    for (rel, cls), want in DIM_TABLE.items():
        fq = f"{rel}::{cls}.compute_dimensions"
        try:
            src = (common.REPO / rel).read_text()
            tree = ast.parse(src)
            c = next(n for n in tree.body if isinstance(n, ast.ClassDef) and n.name == cls)
            fn = next(n for n in c.body if isinstance(n, ast.FunctionDef) and n.name == "compute_dimensions")
        except Exception as ex:
            rep.undecided.append(f"{fq}: {ex}")
            continue
        fsrc = ast.get_source_segment(src, fn) or ""
        rep.add_function(fq, rel, fsrc, "P (match arms evaluated symbolically against the dimension rules)")
        nq = sp.Symbol("num_quanta_list") if cls == "CompositeOperationType" else sp.Symbol("num_quanta")
        for arm, exprs in want.items():
            oid = f"{fq}::ensures:{arm}-dimension-rule"
            body = armeval.arm_for(fn, arm)
            if body is None:
                rep.not_covered(fq, fsrc, f"no match arm for {arm}")
                continue
            try:
                got = armeval.eval_arm(body, {"num_quanta": nq})
            except Outside as o:
                rep.not_covered(fq, fsrc, f"arm of {arm}: {o}")
                continue
            wantv = [sp.sympify(x, locals={"estimate": sp.Symbol("estimate"), "num_quanta": sp.Symbol("num_quanta"), "total": sp.Symbol("total"), "Max": sp.Max}) for x in exprs]
            ok = len(got) == len(wantv) and all(not isinstance(g, tuple) and armeval.same(g, w) for g, w in zip(got, wantv))
            rep.add_ob(Obligation(oid, fq, "ensures", "sympy", "discharged" if ok else "failed", detail="" if ok else f"arm returns {got}, rule {exprs}"))
            if not ok:
                rep.violation(f"{fq}: dimension rule of {arm} is {got}, contract {exprs}", key=f"P:{oid}",
                              replay={"kind": "dispatch", "path": rel, "type": arm, "got": [str(g) for g in got], "want": exprs, "failed_obligations": [oid]}, no_input=True)


def run(rep, tier):
    resize_kernel(rep)
    dimension_rule_obligations(rep)
    kernels.oracle_self_check(rep)
    kernels.run_generators(rep, ["trace_out_matrix"])
    from vf.pyvc import tensors
    kernels.run_delegation(rep, ["resize_fock"])
    tensors.run_tensor_contracts(rep, ["C10"])       # ProductState.resize_fock / Envelope.resize_fock: pad / cut of the Fock axes only
    kernels.run_scope(rep, ["photon_weave/state/fock.py", "photon_weave/operation/fock_operation.py",
                            "photon_weave/operation/helpers/fock_dimension_esitmation.py"])
    B.run_b(rep, morecells.resize_cells(tier, common.seed()), ["C10"], tier=tier)
    B.run_b(rep, opcells.autodim_cells(tier, common.seed()), ["C10"], tier=tier)
