"""C10 — Fock-space truncation never silently loses state."""
from vf import common
from vf.pyvc import kernels
from vf.rtc import morecells, opcells
from . import bcommon as B

CATEGORY = "other"
EXPLANATION = B.MIXED + (
    "P: trace_out_matrix pattern used for the occupation estimate; definedness. B: resize at the three entry points x levels x state classes "
    "(support touching the top level, empty top level, mixed): success => requested dimension, zero padding only, no population removed; failure => "
    "state and dimension untouched; reported dimension == Fock axis length. Automatic dimension: result compared with the ideal (cut-off + 40) result, "
    "exactly for ladder / phase / beam-splitter operations, up to the documented threshold for displacement / squeezing / expressions (known finding).")


def run(rep, tier):
    kernels.oracle_self_check(rep)
    kernels.run_generators(rep, ["trace_out_matrix"])
    kernels.run_scope(rep, ["photon_weave/state/fock.py", "photon_weave/operation/fock_operation.py",
                            "photon_weave/operation/helpers/fock_dimension_esitmation.py"])
    B.run_b(rep, morecells.resize_cells(tier, common.seed()), ["C10"], tier=tier)
    B.run_b(rep, opcells.autodim_cells(tier, common.seed()), ["C10"], tier=tier)
