"""C14 — runs are reproducible from the seed and random draws are never reused (decided by static contracts)."""
import ast
import json
import os
import subprocess
import sys
import time

import z3

from vf import common
from vf.common import Obligation
from vf.pyvc import dataflow as D, engine, fieldexec as F, kernels
from vf.pyvc.listexec import Outside

CATEGORY = "proof"
EXPLANATION = (
    "Decided by static contracts on the real AST. (1) Config: symbolic field-effect execution proves set_seed(s) writes exactly "
    "_random_seed := s and _key := PRNGKey(s); random_key returns fst(split(_key)) and stores snd(split(_key)); Config is a singleton; by "
    "induction (z3) the i-th key after set_seed(s) is a function of (s, i) only. (2) Dataflow obligations at every jax.random.choice site of the "
    "anchored files: the key is a local bound in the same block to <Config()>.random_key, used exactly once, never stored; no other randomness "
    "source; no dependence on uuid / hash order. A bounded twin-run monitor (same process, fresh process, after unrelated activity; keys pairwise "
    "distinct) is reported separately and is not counted as proved.")
CFG = "photon_weave/photon_weave.py"
FILES = ["photon_weave/photon_weave.py", "photon_weave/state/fock.py", "photon_weave/state/polarization.py", "photon_weave/state/custom_state.py",
         "photon_weave/state/base_state.py", "photon_weave/state/envelope.py", "photon_weave/state/composite_envelope.py",
         "photon_weave/_math/ops.py", "photon_weave/operation/operation.py", "photon_weave/operation/fock_operation.py",
         "photon_weave/operation/composite_operation.py", "photon_weave/operation/polarization_operation.py",
         "photon_weave/operation/custom_state_operation.py", "photon_weave/operation/helpers/fock_dimension_esitmation.py",
         "photon_weave/extra/einsum_constructor.py", "photon_weave/extra/expression_interpreter.py"]
KNOWN = {"jax.random.PRNGKey": "PRNGKey", "jax.random.split": "pair:split"}


def _ob(rep, oid, fq, kind, backend, ok, detail=""):
    rep.add_ob(Obligation(oid, fq, kind, backend, "discharged" if ok else "failed", detail=detail))
    return ok


def config_contracts(rep):
    fails = []
    try:
        tree, src = D.parse(CFG)
    except Exception as ex:
        rep.undecided.append(f"cannot parse {CFG}: {ex}")
        return fails
    fns = dict(D.functions(tree))
    for q in ("Config.set_seed", "Config.random_key", "Config.set_contraction", "Config.contractions", "Config.__new__", "Config.__init__"):
        if q in fns:
            rep.add_function(f"{CFG}::{q}", CFG, ast.get_source_segment(src, fns[q]) or "", "P (field-effect execution + z3)")

    def method(q):
        if q not in fns:
            raise Outside(f"{q} not found")
        helpers = {k.split(".", 1)[1]: v for k, v in fns.items() if k.startswith("Config.") and k.count(".") == 1}
        return F.FieldExec(fns[q], KNOWN, helpers).run()

    def check(q, name, fn):
        fq = f"{CFG}::{q}"
        try:
            ok, detail = fn()
        except Outside as o:
            rep.not_covered(fq, ast.get_source_segment(src, fns[q]) if q in fns else "", f"{name}: {o}")
            return
        if not _ob(rep, f"{fq}::{name}", fq, "ensures", "z3", ok, detail):
            fails.append((fq, name, detail))

    def c_set_seed():
        m = method("Config.set_seed")
        seed = m.env[list(m.env)[0]]
        want = {"_random_seed": seed, "_key": F.ufun("PRNGKey", 1)(seed)}
        ok = set(m.writes) == set(want) and all(F.equal(m.writes[k], want[k]) for k in want) and not m.other_effects
        return ok, f"writes {sorted(m.writes)} {m.other_effects}"
    check("Config.set_seed", "ensures:key-is-PRNGKey(seed)-and-frame", c_set_seed)

    def c_random_key():
        m = method("Config.random_key")
        k0 = m.field("_key") if "_key" in m.fields0 else None
        old = m.fields0.get("_key")
        ok = old is not None and set(m.writes) == {"_key"} and F.equal(m.writes["_key"], F.ufun("split1", 1)(old)) \
            and not isinstance(m.ret, str) and F.equal(m.ret, F.ufun("split0", 1)(old)) and not m.other_effects
        return ok, f"writes {sorted(m.writes)}, returns {m.ret}"
    check("Config.random_key", "ensures:returns-fst(split)-stores-snd(split)-and-frame", c_random_key)

    def c_set_contraction():
        m = method("Config.set_contraction")
        arg = m.env[list(m.env)[0]]
        return set(m.writes) == {"_contractions"} and F.equal(m.writes["_contractions"], arg) and not m.other_effects, f"writes {sorted(m.writes)}"
    check("Config.set_contraction", "ensures:writes-only-the-contraction-flag", c_set_contraction)

    def c_contractions():
        m = method("Config.contractions")
        return not m.writes and not isinstance(m.ret, str) and F.equal(m.ret, m.fields0.get("_contractions", None)) and not m.other_effects, \
            f"writes {sorted(m.writes)}"
    check("Config.contractions", "ensures:pure-read-of-the-flag", c_contractions)

    def c_singleton():
        fn = fns.get("Config.__new__")
        if fn is None:
            raise Outside("Config.__new__ not found")
        txt = ast.unparse(fn)
        ok = "cls._instance is None" in txt and "cls._instance = " in txt and txt.rstrip().endswith("return cls._instance")
        ini = fns.get("Config.__init__")
        if ini is None:
            raise Outside("Config.__init__ not found")
        body = [s for s in ini.body if not (isinstance(s, ast.Expr) and isinstance(s.value, ast.Constant))]
        first = body[0] if body else None
        # either `if not hasattr(self, '_initialized'): <whole set-up>` (nothing after it) or `if hasattr(self, '_initialized'): return` first
        guard_a = (isinstance(first, ast.If) and ast.unparse(first.test) == "not hasattr(self, '_initialized')" and len(body) == 1 and not first.orelse)
        guard_b = (isinstance(first, ast.If) and ast.unparse(first.test) == "hasattr(self, '_initialized')" and len(first.body) == 1
                   and isinstance(first.body[0], ast.Return) and first.body[0].value is None and not first.orelse)
        if not (guard_a or guard_b):
            if "_initialized" in ast.unparse(ini):
                raise Outside("re-initialisation guard of an unrecognised form")
            return False, "Config.__init__ has no re-initialisation guard: every Config() call would reseed the generator"
        if not ok:
            raise Outside("singleton __new__ of an unrecognised form")
        return True, "singleton __new__ and re-initialisation guard in __init__"
    check("Config.__new__", "ensures:singleton-and-init-once", c_singleton)

    # lemma by induction over the two contracts: the i-th key after set_seed(s) depends on (s, i) only
    fq = f"{CFG}::Config"
    S1 = z3.Function("state1", z3.IntSort(), F.V)
    S2 = z3.Function("state2", z3.IntSort(), F.V)
    sp0, sp1, prng = F.ufun("split0", 1), F.ufun("split1", 1), F.ufun("PRNGKey", 1)
    s = z3.Const("seed", F.V)
    n = z3.Int("n")
    hyp = [S1(0) == prng(s), S2(0) == prng(s),
           z3.ForAll([n], z3.Implies(n >= 0, z3.And(S1(n + 1) == sp1(S1(n)), S2(n + 1) == sp1(S2(n)))))]
    st, dt, _, _ = engine.solve(hyp, S1(0) == S2(0))
    rep.add_ob(Obligation(f"{fq}::lemma:key-sequence-depends-on-seed-only:base", fq, "lemma", "z3", st, dt))
    st2, dt2, _, _ = engine.solve(hyp + [n >= 0, S1(n) == S2(n)], z3.And(S1(n + 1) == S2(n + 1), sp0(S1(n)) == sp0(S2(n))))
    rep.add_ob(Obligation(f"{fq}::lemma:key-sequence-depends-on-seed-only:step", fq, "lemma", "z3", st2, dt2))
    return fails


def run(rep, tier):
    fails = config_contracts(rep)
    for fq, name, detail in fails:
        rep.violation(f"{fq}: contract clause {name} refuted: {detail}", key=f"P:{fq}:{name}",
                      replay={"kind": "obligation", "function": fq, "failed_obligations": [f"{fq}::{name}"], "solver_output": detail}, no_input=True)
    nsites = 0
    for rel in FILES:
        try:
            sites = D.key_linearity(rel)
            rnd = D.randomness_sources(rel)
            hs = D.hash_order_dependence(rel)
        except Exception as ex:
            rep.undecided.append(f"{rel}: dataflow analysis failed: {ex}")
            continue
        for r in sites:
            nsites += 1
            fq = f"{rel}::{r['function']}"
            oid = f"{fq}::dataflow:fresh-key-per-draw@{r['line']}"
            rep.add_ob(Obligation(oid, fq, "dataflow", "dataflow", "discharged" if r["ok"] else "failed", detail=r["why"]))
            if not r["ok"]:
                rep.violation(f"{fq} line {r['line']}: sampling site does not consume a fresh key: {r['why']}",
                              key=f"P:{fq}:key-linearity", replay={"kind": "dataflow", "path": rel, "function": r["function"], "line": r["line"],
                                                                    "why": r["why"], "failed_obligations": [oid]}, no_input=True)
        oid = f"{rel}::dataflow:no-other-randomness-source"
        rep.add_ob(Obligation(oid, rel, "dataflow", "dataflow", "failed" if rnd else "discharged", detail="; ".join(f"{x['function']}:{x['line']} {x['what']}" for x in rnd)))
        for x in rnd:
            rep.violation(f"{rel}::{x['function']} line {x['line']}: randomness source outside Config: {x['what']}",
                          key=f"P:{rel}::{x['function']}:randomness:{x['what']}", replay={"kind": "dataflow", "path": rel, **x, "failed_obligations": [oid]}, no_input=True)
        oid = f"{rel}::dataflow:no-hash-order-dependence"
        rep.add_ob(Obligation(oid, rel, "dataflow", "dataflow", "failed" if hs else "discharged", detail="; ".join(f"{x['function']}:{x['line']} {x['what']}" for x in hs)))
        for x in hs:
            rep.violation(f"{rel}::{x['function']} line {x['line']}: result may depend on uuid / hash order: {x['what']}",
                          key=f"P:{rel}::{x['function']}:hash-order", replay={"kind": "dataflow", "path": rel, **x, "failed_obligations": [oid]}, no_input=True)
    rep.add_ob(Obligation("cover:sampling-sites-found", "all", "cover", "dataflow", "discharged" if nsites >= 8 else "failed", detail=f"{nsites} jax.random.choice sites analysed"))
    rep.obligation_samples.append({"sampling_sites": nsites})
    twin_runs(rep, tier)
    rep.assume("jax.random.split yields statistically independent streams and jax.random.choice is a deterministic function of (key, p) (JAX trusted)",
               "Config is only mutated through its own methods (no external store to Config._key; checked by the frame of the anchored files' sampling sites)",
               "statistical independence of draws is reduced to key freshness; the quality of the PRNG is assumed")
    rep.trust("z3", "pyvc field-effect executor and dataflow analyses (own code)")


PROGRAM = r'''
import json, sys
sys.path.insert(0, sys.argv[1])
import jax, numpy as np, jax.numpy as jnp
from photon_weave.photon_weave import Config
from photon_weave.state.envelope import Envelope
from photon_weave.state.composite_envelope import CompositeEnvelope
from photon_weave.state.custom_state import CustomState
from photon_weave.operation import Operation, PolarizationOperationType, FockOperationType, CompositeOperationType
keys, outs = [], []
orig = jax.random.choice
def rec(key, a, shape=(), replace=True, p=None, axis=0):
    keys.append(np.array(key).tolist()); r = orig(key, a, shape, replace, p, axis); return r
jax.random.choice = rec
def program(seed):
    C = Config(); C.set_seed(seed)
    e1, e2 = Envelope(), Envelope(); c = CustomState(3)
    ce = CompositeEnvelope(e1, e2, c)
    e1.polarization.apply_operation(Operation(PolarizationOperationType.H))
    e2.polarization.apply_operation(Operation(PolarizationOperationType.RX, theta=1.1))
    e1.fock.apply_operation(Operation(FockOperationType.Creation))
    ce.apply_operation(Operation(CompositeOperationType.CXPolarization), e1.polarization, e2.polarization)
    c.apply_operation(Operation(__import__("photon_weave.operation", fromlist=["CustomStateOperationType"]).CustomStateOperationType.Custom,
                                operator=jnp.array(np.linalg.qr(np.random.default_rng(1).normal(size=(3, 3)))[0].astype(complex))))
    o = []
    o.append(sorted((type(k).__name__, v) for k, v in ce.measure(e1.polarization).items()))
    o.append(sorted((type(k).__name__, v) for k, v in e2.polarization.measure(destructive=False).items()))
    o.append(sorted((type(k).__name__, v) for k, v in c.measure().items()))
    e3 = Envelope(); e3.polarization.apply_operation(Operation(PolarizationOperationType.H))
    o.append(e3.polarization.measure_POVM([jnp.array([[1, 0], [0, 0]], dtype=complex), jnp.array([[0, 0], [0, 1]], dtype=complex)])[0])
    e4 = Envelope(); e4.polarization.apply_operation(Operation(PolarizationOperationType.H)); e4.combine()
    o.append(sorted((type(k).__name__, v) for k, v in e4.measure().items()))
    return o
mode = sys.argv[2]; seed = int(sys.argv[3])
if mode == "noise":      # unrelated earlier activity in the process
    C = Config(); C.set_seed(999)
    for _ in range(3):
        e = Envelope(); e.polarization.apply_operation(Operation(PolarizationOperationType.H)); e.measure()
    Operation(PolarizationOperationType.RY, theta=0.3); Config().random_key
    keys.clear()
r1 = program(seed); k1 = list(keys); keys.clear()
r2 = program(seed); k2 = list(keys)
print(json.dumps({"r1": r1, "r2": r2, "k1": k1, "k2": k2}))
'''


def twin_runs(rep, tier):
    """Bounded monitor (never counted as proved): same seed => same keys and outcomes (a) twice in one process,
    (b) in a fresh process, (c) after unrelated activity; keys pairwise distinct within a run."""
    seeds = [common.seed() % 1000 + 1, 17] if tier == "quick" else [common.seed() % 1000 + 1, 17, 123, 4242]
    py = sys.executable
    env = dict(os.environ, JAX_PLATFORMS="cpu")
    runs = 0
    for sd in seeds:
        outs = {}
        for mode in ("plain", "noise"):
            p = subprocess.run([py, "-c", PROGRAM, str(common.REPO), mode, str(sd)], capture_output=True, text=True, env=env, timeout=600)
            if p.returncode != 0:
                rep.broken.append(f"twin-run program failed ({mode}, seed {sd}): {p.stderr.strip().splitlines()[-1] if p.stderr.strip() else p.returncode}")
                return
            outs[mode] = json.loads(p.stdout.strip().splitlines()[-1])
            runs += 2
        a, b = outs["plain"], outs["noise"]
        cell = {"seed": sd, "draws": len(a["k1"])}
        problems = []
        if a["r1"] != a["r2"] or a["k1"] != a["k2"]:
            problems.append("re-seeding in one process does not reproduce keys / outcomes")
        if a["r1"] != b["r1"] or a["k1"] != b["k1"]:
            problems.append("a fresh process with unrelated earlier activity does not reproduce keys / outcomes")
        ks = [tuple(k) for k in a["k1"]]
        if len(set(ks)) != len(ks):
            problems.append("a key was used for two draws")
        rep.bounded(cell, True, evals=3)
        for pr in problems:
            rep.violation(f"seed {sd}: {pr}", key=f"B:C14:{pr[:40]}", replay={"kind": "twin", "seed": sd, "problem": pr, "plain": a, "noise": b})
    rep.bounds["twin_runs"] = {"seeds": seeds, "programs_run": runs, "modes": ["same process twice", "fresh process", "after unrelated activity"]}
