"""C02 — product-space management never changes the physics; partial trace is the true partial trace."""
from vf import common
from vf.pyvc import kernels
from vf.rtc import morecells
from . import bcommon as B

CATEGORY = "other"
EXPLANATION = B.MIXED + (
    "P: reorder_vector/matrix permutation patterns, trace_out_matrix partial-trace pattern (one label per traced-out member shared by its row and "
    "column only, kept members in order), trace_out_vector pattern class, for every number of members and every kept subset / order. "
    "B: Envelope.combine/reorder/expand/contract, CompositeEnvelope.combine/reorder/expand, own-state expand/contract: joint density matrix of the "
    "world unchanged; trace_out at the three entry points: returned value == independent partial trace in the requested order and joint state unchanged.")


def run(rep, tier):
    kernels.oracle_self_check(rep)
    kernels.run_generators(rep, ["reorder_vector", "reorder_matrix", "trace_out_vector", "trace_out_matrix"])
    from vf.pyvc import tensors
    tensors.run_tensor_contracts(rep, ["C02"])
    kernels.run_delegation(rep, ['trace_out'])
    from vf.pyvc import kronexec
    kronexec.run_combine(rep)
    kronexec.run_envelope_combine(rep)
    B.run_b(rep, morecells.trace_out_cells(tier, common.seed()), ["C02"], tier=tier)
    B.run_b(rep, morecells.structural_cells(tier, common.seed()), ["C02"], tier=tier)
    if tier == "thorough":
        from vf.rtc import histories
        B.run_b(rep, histories.history_cells(tier, common.seed()), ["C02", "C08"], explore=True, tier=tier)
    extra = [c for c in morecells.three_space_cells(tier, common.seed()) + morecells.stale_cache_cells(tier, common.seed()) if c["action"]["kind"] in ("structural", "trace_out")]
    B.run_b(rep, extra, ["C02"], tier=tier)
