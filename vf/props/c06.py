"""C06 — Kraus channels."""
from vf import common
from vf.pyvc import kernels
from vf.rtc import morecells
from . import bcommon as B

CATEGORY = "other"
EXPLANATION = B.MIXED + (
    "P: apply_operator_vector/matrix binding patterns used by the product-state channel. B: BaseState/CustomState/Envelope/CompositeEnvelope."
    "apply_kraus with CPTP sets (amplitude damping, dephasing, reset, unitary, random with 2..4 operators) on every target subset / order and layout: "
    "joint state == sum_i (K_i x I) rho (K_i x I)^dagger (independent oracle), unit trace, density-matrix level unless pure.")


def run(rep, tier):
    kernels.oracle_self_check(rep)
    kernels.run_generators(rep, ["apply_operator_vector", "apply_operator_matrix"])
    from vf.pyvc import tensors
    tensors.run_tensor_contracts(rep, ["C06"])
    kernels.run_delegation(rep, ['apply_kraus'])
    from vf import lemmas
    lemmas.lemma_obligations(rep, ["kraus_trace", "complete_set_preserves_trace"])
    B.run_b(rep, morecells.kraus_cells(tier, common.seed()), ["C06"], tier=tier)
    extra = [c for c in morecells.three_space_cells(tier, common.seed()) + morecells.stale_cache_cells(tier, common.seed()) if c["action"]["kind"] == "kraus"]
    B.run_b(rep, extra, ["C06"], tier=tier)
