"""C03 — multi-subsystem operators bind to operands in the order given (DESIGN section 7)."""
from vf import common
from vf.pyvc import kernels
from vf.rtc import cells as CE, opcells, run as RUN

CATEGORY = "other"
EXPLANATION = (
    "Mixed. Level P (proved, unbounded): the binding clauses of apply_operator_vector/matrix (j-th operator in/out axis tied to the j-th "
    "operand for every number of members, operand count and placement) and the reorder patterns. Level B (BOUNDED run-time contract): "
    "CompositeEnvelope.apply_operation for CNOT, CZ, SWAP, CSWAP, beam splitter and 2/3-operand expressions over every ordered operand "
    "choice, operands spread over own state / envelope / one or two product spaces in several internal orders, Vector and Matrix, "
    "entangled and mixed inputs: joint state == (O x I) rho (O x I)^dagger with operands in call order (independent NumPy oracle).")


def run(rep, tier):
    kernels.oracle_self_check(rep)
    kernels.run_generators(rep, ["apply_operator_vector", "apply_operator_matrix", "reorder_vector", "reorder_matrix"])
    from vf.pyvc import tensors
    tensors.run_tensor_contracts(rep, ["C03"])
    kernels.run_delegation(rep, ['apply_operation'])
    from vf.pyvc import kronexec
    kronexec.run_combine(rep)
    cells = opcells.multi_target_cells(tier, common.seed())
    rep.bounds.update({"cells": len(cells), "operands": "every ordered duplicate-free choice among e0/e1(/e2) polarizations, Fock pairs, custom state",
                       "structures": "vf/rtc/layouts.py STRUCTS, STRUCTS3", "max_members_per_product_space": 4})
    from . import bcommon as B
    B.run_b(rep, cells, ["C03", "C01"], tier=tier)
    from vf.rtc import morecells
    extra = [c for c in morecells.three_space_cells(tier, common.seed()) + morecells.stale_cache_cells(tier, common.seed()) if c["action"]["kind"] == "op"]
    B.run_b(rep, extra, ["C03", "C01"], tier=tier)
    # beam splitters / expressions that have to resize their operands inside the product space first (cells shared with C11)
    B.run_b(rep, opcells.optics_cells(tier, common.seed()), ["C03", "C11", "C01"], tier=tier, cap=120)
    rep.assume("level B compares in complex128 at 1e-8; amplitudes sampled (one seed per cell), structure enumerated",
               "jnp.einsum / reshape / kron / expm are trusted (JAX)")
