"""C04 — measurement outcomes follow the Born rule."""
from vf import common
from vf.pyvc import kernels
from vf.rtc import morecells
from . import bcommon as B

CATEGORY = "other"
EXPLANATION = B.MIXED + (
    "P: measure_vector / measure_matrix marginal patterns (matrix form: every unmeasured member carries ONE label on row and column, i.e. a partial "
    "trace), definedness of names at every measurement entry point. B: a recorder on jax.random.choice captures every probability vector; each draw "
    "must equal the diagonal of the reduced density matrix of a not yet measured specified subsystem, conditioned on the outcomes drawn before "
    "(independent oracle), be a probability vector, and the reported outcome must have non-zero probability; every outcome branch is forced and re-run.")


def key_linearity_obligations(rep):
    """Shared with C14: successive outcomes of one call follow the conditional Born rule only if every draw consumes a fresh key."""
    from vf.common import Obligation
    from vf.pyvc import dataflow as D
    for rel in B.STATE_FILES:
        try:
            sites = D.key_linearity(rel)
        except Exception as ex:
            rep.undecided.append(f"{rel}: {ex}")
            continue
        for r in sites:
            fq = f"{rel}::{r['function']}"
            oid = f"{fq}::dataflow:fresh-key-per-draw@{r['line']}"
            rep.add_ob(Obligation(oid, fq, "dataflow", "dataflow", "discharged" if r["ok"] else "failed", detail=r["why"]))
            if not r["ok"]:
                rep.violation(f"{fq} line {r['line']}: sampling site does not consume a fresh key ({r['why']}): outcomes drawn in one call are correlated "
                              "instead of following the conditional Born rule", key=f"P:{fq}:key-linearity",
                              replay={"kind": "dataflow", "path": rel, "function": r["function"], "line": r["line"], "why": r["why"],
                                      "failed_obligations": [oid]}, no_input=True)


def run(rep, tier):
    kernels.oracle_self_check(rep)
    kernels.run_generators(rep, ["measure_vector", "measure_matrix"])
    from vf.pyvc import tensors
    tensors.run_tensor_contracts(rep, ["C04"])
    kernels.run_delegation(rep, ['measure'])
    kernels.run_scope(rep, B.STATE_FILES)
    key_linearity_obligations(rep)
    B.run_b(rep, morecells.measure_cells(tier, common.seed()), ["C04"], explore=True, tier=tier)
    extra = [c for c in morecells.three_space_cells(tier, common.seed()) + morecells.stale_cache_cells(tier, common.seed()) if c["action"]["kind"] == "measure"]
    B.run_b(rep, extra, ["C04"], explore=True, tier=tier)
