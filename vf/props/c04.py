"""C04 — measurement outcomes follow the Born rule."""
from vf import common
from vf.pyvc import kernels
from vf.rtc import morecells
from . import bcommon as B

CATEGORY = "other"
EXPLANATION = B.MIXED + (
    "P: measure_vector / measure_matrix marginal patterns (matrix form: every unmeasured member carries ONE label on row and column, i.e. a partial "
    "trace), definedness of names at every measurement entry point. B: a recorder on jax.random.choice captures every probability vector; each draw "
    "must equal the diagonal of the reduced density matrix of a not yet measured specified subsystem, conditioned on the outcomes drawn before "
    "(independent oracle), be a probability vector, and the reported outcome must have non-zero probability; every outcome branch is forced and re-run.")


def run(rep, tier):
    kernels.oracle_self_check(rep)
    kernels.run_generators(rep, ["measure_vector", "measure_matrix"])
    kernels.run_scope(rep, B.STATE_FILES)
    B.run_b(rep, morecells.measure_cells(tier, common.seed()), ["C04"], explore=True, tier=tier)
