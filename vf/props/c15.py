"""C15 — Operation objects are pure, reusable descriptions (decided by static contracts + bounded reuse monitor)."""
import ast

from vf import common
from vf.common import Obligation
from vf.pyvc import dataflow as D, fieldexec as F, kernels
from vf.pyvc.listexec import Outside
from vf.rtc import cells as CE, layouts as LY, run as RUN
from . import bcommon as B

CATEGORY = "proof"
EXPLANATION = (
    "Decided by static contracts on the real AST: (a) enum members of the four operation-type enums are immutable after class creation (no "
    "attribute / item store on `self` outside __init__ - this is the frame of Operation.__init__ -> type.update()); (b) Operation.__init__ writes only "
    "fields of the new object; (c) Operation.operator recomputes the matrix from `dimensions` and kwargs only (field-effect execution), and at every "
    "application site compute_dimensions dominates the read of .operator, so cached _dimensions / _operator never carry information between "
    "applications; (d) compute_operator / compute_dimensions never store into kwargs; (e) the dimension estimator writes _dimensions of a freshly "
    "constructed Operation only. Bounded monitor (reported separately): one Operation object applied repeatedly to targets of different sizes "
    "and containers, interleaved with the construction of other operations, always satisfies the C01/C03 contract; user arrays are byte-identical.")
OPFILES = ["photon_weave/operation/operation.py", "photon_weave/operation/composite_operation.py", "photon_weave/operation/fock_operation.py",
           "photon_weave/operation/polarization_operation.py", "photon_weave/operation/custom_state_operation.py",
           "photon_weave/operation/helpers/fock_dimension_esitmation.py"]
APPLY_SITES = [("photon_weave/state/fock.py", "Fock.apply_operation"), ("photon_weave/state/polarization.py", "Polarization.apply_operation"),
               ("photon_weave/state/custom_state.py", "CustomState.apply_operation"), ("photon_weave/state/envelope.py", "Envelope.apply_operation"),
               ("photon_weave/state/composite_envelope.py", "ProductState.apply_operation")]


def _add(rep, oid, fq, ok, detail, kind="frame", backend="dataflow"):
    rep.add_ob(Obligation(oid, fq, kind, backend, "discharged" if ok else "failed", detail=detail))
    if not ok:
        rep.violation(f"{fq}: {oid.split('::')[-1]} refuted: {detail}", key=f"P:{oid}",
                      replay={"kind": "obligation", "function": fq, "failed_obligations": [oid], "solver_output": detail}, no_input=True)


def enum_members_immutable(rep):
    for rel in OPFILES[1:5]:
        try:
            tree, src = D.parse(rel)
        except Exception as ex:
            rep.undecided.append(f"{rel}: {ex}")
            continue
        for cls in [n for n in tree.body if isinstance(n, ast.ClassDef) and any("Enum" in ast.unparse(b) for b in n.bases)]:
            for fn in [n for n in cls.body if isinstance(n, ast.FunctionDef)]:
                fq = f"{rel}::{cls.name}.{fn.name}"
                rep.add_function(fq, rel, ast.get_source_segment(src, fn) or "", "P (dataflow)")
                if fn.name == "__init__":
                    continue
                me = fn.args.args[0].arg if fn.args.args else "self"
                bad = []
                for nd in ast.walk(fn):
                    tg = []
                    if isinstance(nd, ast.Assign):
                        tg = nd.targets
                    elif isinstance(nd, (ast.AugAssign, ast.AnnAssign)):
                        tg = [nd.target]
                    elif isinstance(nd, ast.Delete):
                        tg = nd.targets
                    for t in tg:
                        b = t
                        while isinstance(b, (ast.Subscript, ast.Attribute)):
                            if isinstance(b, ast.Attribute) and isinstance(b.value, ast.Name) and b.value.id == me:
                                bad.append(f"store to {ast.unparse(t)} at line {t.lineno}")
                                break
                            b = b.value
                    if isinstance(nd, ast.Call) and isinstance(nd.func, ast.Attribute) and nd.func.attr in ("append", "extend", "insert", "pop", "remove", "clear", "update", "setdefault", "sort", "reverse") \
                            and isinstance(nd.func.value, ast.Attribute) and isinstance(nd.func.value.value, ast.Name) and nd.func.value.value.id == me:
                        bad.append(f"in-place {nd.func.attr}() on {ast.unparse(nd.func.value)} at line {nd.lineno}")
                    if isinstance(nd, ast.Call) and isinstance(nd.func, ast.Name) and nd.func.id == "setattr" and nd.args and isinstance(nd.args[0], ast.Name) and nd.args[0].id == me:
                        bad.append(f"setattr on the member at line {nd.lineno}")
                _add(rep, f"{fq}::frame:shared-enum-member-not-modified", fq, not bad, "; ".join(bad) or "no store on the enum member")


def kwargs_not_mutated(rep):
    for rel in OPFILES[1:5]:
        try:
            tree, src = D.parse(rel)
        except Exception as ex:
            continue
        for q, fn in D.functions(tree):
            if fn.name not in ("compute_operator", "compute_dimensions", "update"):
                continue
            fq = f"{rel}::{q}"
            bad = []
            for nd in ast.walk(fn):
                tg = nd.targets if isinstance(nd, (ast.Assign, ast.Delete)) else [nd.target] if isinstance(nd, (ast.AugAssign,)) else []
                for t in tg:
                    b = t
                    while isinstance(b, ast.Subscript):
                        b = b.value
                    if isinstance(b, ast.Name) and b.id == "kwargs" and isinstance(t, ast.Subscript):
                        bad.append(f"store into kwargs at line {t.lineno}")
                if isinstance(nd, ast.Call) and isinstance(nd.func, ast.Attribute) and isinstance(nd.func.value, ast.Name) and nd.func.value.id == "kwargs" \
                        and nd.func.attr in ("update", "pop", "clear", "setdefault", "popitem"):
                    bad.append(f"kwargs.{nd.func.attr}() at line {nd.lineno}")
                if isinstance(nd, ast.AugAssign) and isinstance(nd.target, ast.Subscript):
                    b = nd.target
                    while isinstance(b, ast.Subscript):
                        b = b.value
                    if isinstance(b, ast.Name) and b.id == "kwargs":
                        bad.append(f"in-place update of a kwargs value at line {nd.lineno}")
            _add(rep, f"{fq}::frame:kwargs-not-modified", fq, not bad, "; ".join(bad) or "no store into kwargs")


def operation_contracts(rep):
    rel = OPFILES[0]
    try:
        tree, src = D.parse(rel)
    except Exception as ex:
        rep.undecided.append(f"{rel}: {ex}")
        return
    fns = dict(D.functions(tree))
    # (b) __init__ writes only fields of the new object
    fq = f"{rel}::Operation.__init__"
    fn = fns.get("Operation.__init__")
    if fn is None:
        rep.undecided.append(f"{fq} not found")
    else:
        rep.add_function(fq, rel, ast.get_source_segment(src, fn) or "", "P (dataflow)")
        me = fn.args.args[0].arg
        bad = []
        for nd in ast.walk(fn):
            tg = nd.targets if isinstance(nd, ast.Assign) else [nd.target] if isinstance(nd, (ast.AugAssign, ast.AnnAssign)) else []
            for t in tg:
                if isinstance(t, ast.Name):
                    continue
                b = t
                while isinstance(b, (ast.Subscript, ast.Attribute)):
                    par = b
                    b = b.value
                if not (isinstance(par, ast.Attribute) and isinstance(b, ast.Name) and b.id == me and par is t):
                    bad.append(f"store to {ast.unparse(t)} at line {t.lineno} is not a field of the new object")
        _add(rep, f"{fq}::frame:writes-only-fields-of-the-new-object", fq, not bad, "; ".join(bad) or "all stores are self.<field> = ...")
        # required-parameter check raises KeyError on every path with a missing parameter (C17 shares this obligation)
        txt = ast.unparse(fn)
        ok = "for param in operation_type.required_params" in txt and "raise KeyError" in txt
        _add(rep, f"{fq}::raises:missing-required-parameter-is-a-KeyError", fq, ok, "loop over required_params raising KeyError", kind="raises")
    # (c) .operator recomputes from dimensions and kwargs only
    fq = f"{rel}::Operation.operator"
    getter = None
    for cls in [n for n in tree.body if isinstance(n, ast.ClassDef) and n.name == "Operation"]:
        for n in cls.body:
            if isinstance(n, ast.FunctionDef) and n.name == "operator" and any(isinstance(d, ast.Name) and d.id == "property" for d in n.decorator_list):
                getter = n
    if getter is None:
        rep.undecided.append(f"{fq} getter not found")
    else:
        rep.add_function(fq, rel, ast.get_source_segment(src, getter) or "", "P (field-effect execution)")
        body = [s for s in getter.body if not (isinstance(s, ast.Expr) and isinstance(s.value, ast.Constant)) and not isinstance(s, ast.Assert)]
        ok, detail = False, ""
        try:
            # self._operator = self._operation_type.compute_operator(self.dimensions, **self.kwargs); return self._operator
            a, r = body[0], body[-1]
            call = a.value
            me = getter.args.args[0].arg
            ok = (len(body) == 2 and isinstance(a, ast.Assign) and ast.unparse(a.targets[0]) == f"{me}._operator"
                  and isinstance(call, ast.Call) and ast.unparse(call.func) == f"{me}._operation_type.compute_operator"
                  and [ast.unparse(x) for x in call.args] == [f"{me}.dimensions"]
                  and [(k.arg, ast.unparse(k.value)) for k in call.keywords] == [(None, f"{me}.kwargs")]
                  and isinstance(r, ast.Return) and ast.unparse(r.value) == f"{me}._operator")
            detail = "operator getter == compute_operator(self.dimensions, **self.kwargs), stored and returned"
        except Exception as ex:
            detail = f"getter has a different shape: {ex}"
        _add(rep, f"{fq}::ensures:operator-is-recomputed-from-dimensions-and-kwargs-only", fq, ok, detail, kind="ensures", backend="pyvc")
    # compute_dimensions writes _dimensions only (Custom keeps its own)
    fq = f"{rel}::Operation.compute_dimensions"
    fn = fns.get("Operation.compute_dimensions")
    if fn is not None:
        rep.add_function(fq, rel, ast.get_source_segment(src, fn) or "", "P (dataflow)")
        stores = [ast.unparse(t) for nd in ast.walk(fn) if isinstance(nd, ast.Assign) for t in nd.targets]
        _add(rep, f"{fq}::frame:writes-only-_dimensions", fq, stores == ["self._dimensions"], f"stores: {stores}")


def dominance(rep):
    """At every application site compute_dimensions dominates every read of .operator."""
    for rel, q in APPLY_SITES:
        fq = f"{rel}::{q}"
        try:
            tree, src = D.parse(rel)
            fn = dict(D.functions(tree))[q]
        except Exception as ex:
            rep.undecided.append(f"{fq}: {ex}")
            continue
        rep.add_function(fq, rel, ast.get_source_segment(src, fn) or "", "P (dataflow)")
        opname = fn.args.args[1].arg if len(fn.args.args) > 1 else "operation"
        bad = []

        def has_cd(node):
            return any(isinstance(n, ast.Call) and isinstance(n.func, ast.Attribute) and n.func.attr == "compute_dimensions"
                       and isinstance(n.func.value, ast.Name) and n.func.value.id == opname for n in ast.walk(node))

        def uses_op(node):
            return [n.lineno for n in ast.walk(node) if isinstance(n, ast.Attribute) and n.attr in ("operator", "_operator", "dimensions", "_dimensions")
                    and isinstance(n.value, ast.Name) and n.value.id == opname and isinstance(n.ctx, ast.Load)]

        def is_type_chain(st):
            """if / elif chain over isinstance(operation._operation_type, <EnumType>) - exhaustive over the four operation-type enums
            for Fock/Pol/Custom/Composite dispatchers (precondition: operation types are one of the four enums)."""
            n, kinds = st, set()
            while isinstance(n, ast.If):
                t = ast.unparse(n.test)
                if not t.startswith(f"isinstance({opname}._operation_type,"):
                    return False
                kinds.add(t)
                if len(n.orelse) == 1 and isinstance(n.orelse[0], ast.If):
                    n = n.orelse[0]
                else:
                    return not n.orelse and len(kinds) >= 2
            return False

        def walk(stmts, computed):
            for st in stmts:
                if isinstance(st, ast.If):
                    u = uses_op(st.test)
                    if u and not computed:
                        bad.extend(u)
                    c1 = walk(st.body, computed)
                    c2 = walk(st.orelse, computed) if st.orelse else computed
                    if is_type_chain(st):
                        # every branch of the exhaustive chain must compute
                        branches, n = [], st
                        while isinstance(n, ast.If):
                            branches.append(n.body)
                            n = n.orelse[0] if len(n.orelse) == 1 and isinstance(n.orelse[0], ast.If) else None
                        computed = computed or all(any(has_cd(s) for s in b) for b in branches)
                    else:
                        computed = c1 and c2
                    if isinstance(st.body[-1], (ast.Return, ast.Raise)) and not st.orelse:
                        computed = c2
                    continue
                if isinstance(st, (ast.For, ast.While, ast.With, ast.Try)):
                    for fld in ("body", "orelse", "finalbody"):
                        sub = getattr(st, fld, None)
                        if sub:
                            computed = walk(sub, computed) and computed or computed
                    continue
                if has_cd(st):
                    # the call itself may read nothing of the cache before computing
                    computed = True
                    continue
                u = uses_op(st)
                if u and not computed:
                    bad.extend(u)
            return computed
        walk(fn.body, False)
        _add(rep, f"{fq}::dataflow:compute_dimensions-dominates-operator-reads", fq, not bad,
             ("operator / dimensions read at line(s) %s before compute_dimensions on some path" % sorted(set(bad))) if bad else
             "every read of operation.operator / .dimensions is preceded by operation.compute_dimensions(...)", kind="dataflow")


def estimator_uses_fresh_operation(rep):
    rel = OPFILES[2]
    try:
        tree, src = D.parse(rel)
    except Exception:
        return
    for q, fn in D.functions(tree):
        if fn.name != "compute_dimensions":
            continue
        fq = f"{rel}::{q}"
        bad = []
        for nd in ast.walk(fn):
            if isinstance(nd, ast.Call) and isinstance(nd.func, ast.Name) and nd.func.id == "FockDimensions":
                a = nd.args[1] if len(nd.args) > 1 else None
                if not (isinstance(a, ast.Call) and isinstance(a.func, ast.Name) and a.func.id == "Operation"):
                    bad.append(f"FockDimensions at line {nd.lineno} is not given a freshly constructed Operation")
        _add(rep, f"{fq}::frame:estimator-writes-a-fresh-operation-only", fq, not bad, "; ".join(bad) or "every FockDimensions(...) receives Operation(...) built inline")


def reuse_cells(tier, seed):
    """Bounded monitor: one Operation object reused across targets of different size / container, with other operations
    (in particular two Expression composite operations with different operand types) constructed and applied in between."""
    cells = []
    I1 = {"re": 0, "im": 1}
    exprA = {"kind": "op", "entry": "ce", "fam": "Composite", "type": "Expression",
             "params": {"expr": ["kron", ["expm", ["s_mult", I1, 0.3, "n0"]], "h"], "state_types": ["Fock", "Polarization"], "context": "two"}}
    exprB = {"kind": "op", "entry": "ce", "fam": "Composite", "type": "Expression",
             "params": {"expr": ["kron", "x", ["expm", ["s_mult", I1, -0.8, "n1"]]], "state_types": ["Polarization", "Fock"], "context": "two"}}
    for tag, blocks in (("own", []), ("ps:f0,p1", [("ps", ["e0.f", "e1.p"])]), ("env01+env1", [("env", ["e0.f", "e0.p"]), ("env", ["e1.p", "e1.f"])])):
        for lv, cls in (("V", "pure"), ("M", "mixed")):
            spec = LY.make_spec(blocks, {b[1][0]: lv for b in blocks}, {}, default_level=lv, default_cls=cls)
            R = lambda m: LY.rename(spec, m)
            for reused, tgs in (
                ({"fam": "Fock", "type": "Creation", "params": {}}, [["e0.f"], ["e1.f"], ["e0.f"]]),
                ({"fam": "Fock", "type": "Displace", "params": {"alpha": {"re": 0.2, "im": 0.1}}}, [["e1.f"], ["e0.f"]]),
                ({"fam": "Polarization", "type": "RX", "params": {"theta": 0.7}}, [["e0.p"], ["e1.p"], ["e0.p"]]),
                ({"fam": "Composite", "type": "NonPolarizingBeamSplitter", "params": {"eta": 0.4}}, [["e0.f", "e1.f"], ["e1.f", "e0.f"]]),
                ({"fam": "Composite", "type": "Expression", "params": exprA["params"]}, [["e0.f", "e1.p"], ["e1.f", "e0.p"]]),
            ):
                steps = []
                for k, tg in enumerate(tgs):
                    entry = "ce" if reused["fam"] == "Composite" or k % 2 else "self"
                    steps.append({"kind": "op", "entry": entry, "reuse": "R", **reused, "targets": [R(t) for t in tg]})
                    # interleave other operations
                    steps.append(dict(exprB, targets=[R("e1.p"), R("e0.f")]))
                    steps.append({"kind": "op", "entry": "self", "fam": "Polarization", "type": "H", "params": {}, "targets": [R("e1.p")]})
                cells.append({"world": spec, "layout": tag, "levels": lv, "cls": cls, "contraction": True, "seed": seed, "variant": reused["type"],
                              "reordered": True, "action": {"kind": "seq", "steps": steps, "targets": [], "entry": "seq", "fam": reused["fam"], "type": reused["type"]}})
    return cells


def run(rep, tier):
    enum_members_immutable(rep)
    kwargs_not_mutated(rep)
    operation_contracts(rep)
    dominance(rep)
    estimator_uses_fresh_operation(rep)
    from . import c16
    c16.frame_only(rep)          # expression-defined operators are evaluated by the interpreter on every read of Operation.operator
    kernels.run_scope(rep, OPFILES)
    cells = reuse_cells(tier, common.seed())
    res = CE.run_cells(cells)
    RUN.evaluate(rep, res, ["C01", "C03", "C15"])
    rep.bounds["reuse_sequences"] = len(cells)
    rep.assume("operation types are members of the four operation-type enums (Operation.__init__ annotation); names resolved statically",
               "the bounded reuse monitor is labelled bounded and not counted as proved", *B.B_ASSUME[:2])
    rep.trust("pyvc dataflow / field-effect analyses (own code)")
