"""C08 — representation changes are lossless; the contraction setting is physics-neutral."""
import ast

import sympy as sp

from vf import common
from vf.common import Obligation
from vf.pyvc import dataflow as D, kernels
from vf.pyvc.listexec import Outside
from vf.rtc import morecells, opcells
from . import bcommon as B

CATEGORY = "other"
EXPLANATION = B.MIXED + (
    "P: the vector -> matrix statement of each of the five expand bodies is evaluated symbolically on a vector of complex symbols and proved to be "
    "|psi><psi| (entry (i, j) == psi_i * conj(psi_j)); each of the five contract bodies: the purity test is |Tr(rho^2) - 1| < tol of the stored state and "
    "dominates the contraction, eigh is taken of the stored state itself (symbolic 3x3 Hermitian rho, sympy), the stored vector is the eigenvector "
    "column of the eigenvalue closest to one, and the vector -> label step uses no tolerance parameter; Config: the contraction flag is written only by set_contraction / __init__ (C14 contracts) "
    "and read through Config().contractions at the contraction sites. B: expand / contract at every container, location, level and state class "
    "(pure, nearly pure within the library's tolerance, mixed, degenerate spectrum, exact basis): joint state unchanged, contract changes the level "
    "only for pure states (to a label only for exact basis states) and otherwise leaves the block bit-identical. Neutrality: every operation / "
    "channel / measurement / POVM cell of the sample is executed under BOTH contraction settings with the same amplitudes and forced outcomes; joint "
    "states and all recorded probability vectors must coincide (and every contract clause of C01-C06, C09 is evaluated against the same spec in both).")
SITES = [("photon_weave/state/fock.py", "Fock.expand"), ("photon_weave/state/polarization.py", "Polarization.expand"),
         ("photon_weave/state/custom_state.py", "CustomState.expand"), ("photon_weave/state/envelope.py", "Envelope.expand"),
         ("photon_weave/state/composite_envelope.py", "ProductState.expand")]


def outer_product_obligations(rep):
    a, b, c = sp.symbols("a b c")
    psi = sp.Matrix([[a], [b], [c]])
    want = psi * psi.H

    locals_ = {}

    def ev(e, me):
        if isinstance(e, ast.Name) and e.id in locals_:
            return locals_[e.id]
        if isinstance(e, ast.BinOp) and isinstance(e.op, ast.MatMult):
            return ev(e.left, me) * ev(e.right, me)
        if isinstance(e, ast.Call) and isinstance(e.func, ast.Attribute) and e.func.attr in ("conj", "conjugate") and not e.args:
            return ev(e.func.value, me).conjugate()
        if isinstance(e, ast.Attribute):
            if isinstance(e.value, ast.Name) and e.value.id == me and e.attr == "state":
                return psi
            if e.attr == "T":
                return ev(e.value, me).T
        if isinstance(e, ast.Call):
            f = ast.unparse(e.func)
            if f in ("jnp.conj", "jnp.conjugate"):
                return ev(e.args[0], me).conjugate()
            if f in ("jnp.dot", "jnp.matmul"):
                return ev(e.args[0], me) * ev(e.args[1], me)
            if f == "jnp.outer":
                x, y = ev(e.args[0], me), ev(e.args[1], me)
                return sp.Matrix(x.shape[0] * x.shape[1], 1, list(x)) * sp.Matrix(1, y.shape[0] * y.shape[1], list(y))
            if isinstance(e.func, ast.Attribute) and e.func.attr == "flatten":
                v = ev(e.func.value, me)
                return sp.Matrix(v.shape[0] * v.shape[1], 1, list(v))
        raise Outside(ast.unparse(e)[:50])

    for rel, q in SITES:
        fq = f"{rel}::{q}"
        try:
            tree, src = D.parse(rel)
            fn = dict(D.functions(tree))[q]
        except Exception as ex:
            rep.undecided.append(f"{fq}: {ex}")
            continue
        rep.add_function(fq, rel, ast.get_source_segment(src, fn) or "", "P (symbolic evaluation of the outer-product statement)")
        me = fn.args.args[0].arg
        cands = []
        locals_.clear()
        # named temporaries of the stored vector (e.g. `flat = self.state.flatten()`), in source order
        for nd in sorted((n for n in ast.walk(fn) if isinstance(n, ast.Assign)), key=lambda n: n.lineno):
            if len(nd.targets) == 1 and isinstance(nd.targets[0], ast.Name):
                try:
                    locals_[nd.targets[0].id] = ev(nd.value, me)
                except Outside:
                    locals_.pop(nd.targets[0].id, None)
        for nd in ast.walk(fn):
            if isinstance(nd, ast.Assign) and len(nd.targets) == 1:
                val = nd.value
                tgt = nd.targets[0]
                txt = ast.unparse(val)
                uses_state = f"{me}.state" in txt or any(isinstance(x, ast.Name) and x.id in locals_ for x in ast.walk(val))
                if ("outer" in txt or "dot" in txt or "matmul" in txt or "@" in txt) and uses_state:
                    cands.append((tgt, val))
        ok, detail = False, "no outer-product statement found"
        refuted = False
        for tgt, val in cands:
            try:
                got = ev(val, me)
                ok = sp.simplify(got - want) == sp.zeros(3, 3)
                detail = f"`{ast.unparse(val)[:70]}` {'==' if ok else '!='} psi psi^dagger"
                # the result must end up in self.state (directly or through a local)
                if ok:
                    break
                refuted = True
            except Outside as o:
                if not refuted:
                    detail = f"outside subset: {o}"
        oid = f"{fq}::ensures:vector-to-matrix-expansion-is-|psi><psi|"
        if not ok and not refuted:
            rep.not_covered(fq, ast.get_source_segment(src, fn) or "", f"vector -> matrix expansion: {detail}")
            continue
        rep.add_ob(Obligation(oid, fq, "ensures", "sympy", "discharged" if ok else "failed", detail=detail))
        if not ok:
            rep.violation(f"{fq}: the vector -> matrix expansion is not |psi><psi|: {detail}", key=f"P:{oid}",
                          replay={"kind": "obligation", "function": fq, "failed_obligations": [oid], "solver_output": detail,
                                  "counter_model": "any vector with a non-real amplitude, e.g. psi = (1, i)/sqrt(2)"}, no_input=True)


CONTRACT_SITES = [("photon_weave/state/fock.py", "Fock.contract", True), ("photon_weave/state/polarization.py", "Polarization.contract", True),
                  ("photon_weave/state/custom_state.py", "CustomState.contract", True), ("photon_weave/state/envelope.py", "Envelope.contract", False),
                  ("photon_weave/state/composite_envelope.py", "ProductState.contract", False)]


def contract_body_obligations(rep):
    """matrix -> vector contraction: the purity test is |Tr(rho^2) - 1| < tol of the STORED state, the eigen-decomposition is taken of the stored
    state (not of a transformed copy), the stored vector is the eigenvector COLUMN of the eigenvalue closest to one, and the store is dominated by
    the purity test; vector -> label contraction uses no tolerance (exact basis states only).  rho is a symbolic 3x3 Hermitian matrix."""
    syms = {}
    M = sp.zeros(3, 3)
    for i in range(3):
        for j in range(3):
            if i == j:
                M[i, j] = sp.Symbol(f"r{i}", real=True)
            elif i < j:
                a, b = sp.Symbol(f"a{i}{j}", real=True), sp.Symbol(f"b{i}{j}", real=True)
                M[i, j] = a + sp.I * b
                M[j, i] = a - sp.I * b
    want_purity = sp.expand((M * M).trace())

    def mev(e, me, env):
        if isinstance(e, ast.Name):
            if e.id in env:
                return env[e.id]
            raise Outside(f"name {e.id}")
        if isinstance(e, ast.Constant) and isinstance(e.value, (int, float)):
            return sp.nsimplify(e.value)
        if isinstance(e, ast.Attribute):
            if isinstance(e.value, ast.Name) and e.value.id == me and e.attr == "state":
                return M
            if e.attr == "T":
                return mev(e.value, me, env).T
            if e.attr == "real":
                return sp.re(mev(e.value, me, env))
        if isinstance(e, ast.BinOp):
            l, r = mev(e.left, me, env), mev(e.right, me, env)
            if isinstance(e.op, ast.Add):
                return l + r
            if isinstance(e.op, ast.Sub):
                return l - r
            if isinstance(e.op, (ast.Mult, ast.MatMult)):
                return l * r
            if isinstance(e.op, ast.Div):
                return l / r
        if isinstance(e, ast.Call):
            f = ast.unparse(e.func)
            if f in ("jnp.matmul", "jnp.dot", "np.matmul", "np.dot") and len(e.args) == 2:
                return mev(e.args[0], me, env) * mev(e.args[1], me, env)
            if f in ("jnp.conj", "jnp.conjugate", "np.conj") and len(e.args) == 1:
                return mev(e.args[0], me, env).conjugate()
            if f in ("jnp.trace", "np.trace") and len(e.args) == 1:
                return mev(e.args[0], me, env).trace()
            if f in ("jnp.real", "np.real") and len(e.args) == 1:
                return sp.re(mev(e.args[0], me, env))
            if isinstance(e.func, ast.Attribute) and e.func.attr in ("conj", "conjugate") and not e.args:
                return mev(e.func.value, me, env).conjugate()
            if isinstance(e.func, ast.Attribute) and e.func.attr == "transpose" and not e.args:
                return mev(e.func.value, me, env).T
        raise Outside(ast.unparse(e)[:50])

    for rel, q, has_label in CONTRACT_SITES:
        fq = f"{rel}::{q}"
        try:
            tree, src = D.parse(rel)
            fn = dict(D.functions(tree))[q]
        except Exception as ex:
            rep.undecided.append(f"{fq}: {ex}")
            continue
        rep.add_function(fq, rel, ast.get_source_segment(src, fn) or "", "P (symbolic evaluation of the purity test and of the eigh argument; dominance)")
        me = fn.args.args[0].arg
        parents = {}
        for nd in ast.walk(fn):
            for ch in ast.iter_child_nodes(nd):
                parents[id(ch)] = nd
        # straight-line local definitions (one symbolic value per simple local)
        env = {}
        for nd in ast.walk(fn):
            if isinstance(nd, ast.Assign) and len(nd.targets) == 1 and isinstance(nd.targets[0], ast.Name):
                try:
                    env[nd.targets[0].id] = mev(nd.value, me, env)
                except Outside:
                    pass
        results = []
        eighs = [nd for nd in ast.walk(fn) if isinstance(nd, ast.Call) and ast.unparse(nd.func) in ("jnp.linalg.eigh", "np.linalg.eigh")]
        if len(eighs) != 1:
            results.append(("eigh-argument-is-the-stored-state", "unknown", f"{len(eighs)} eigh call(s)"))
        else:
            eg = eighs[0]
            try:
                got = mev(eg.args[0], me, env)
                ok = sp.simplify(got - M) == sp.zeros(3, 3)
                results.append(("eigh-argument-is-the-stored-state", "discharged" if ok else "failed",
                                f"eigh({ast.unparse(eg.args[0])[:60]}) {'==' if ok else '!='} eigh(rho) for Hermitian rho"))
            except Outside as o:
                results.append(("eigh-argument-is-the-stored-state", "unknown", f"outside subset: {o}"))
            # dominance by the purity test: either an enclosing `if abs(Q - 1) < tol`, or a preceding `if abs(Q - 1) >= tol: return`
            test = None
            cur = eg
            while id(cur) in parents:
                par = parents[id(cur)]
                if isinstance(par, ast.If) and cur in par.body and "tol" in ast.unparse(par.test):
                    test = ("pos", par.test)
                    break
                cur = par
            if test is None:
                for nd in ast.walk(fn):
                    if isinstance(nd, ast.If) and "tol" in ast.unparse(nd.test) and len(nd.body) == 1 and isinstance(nd.body[0], ast.Return) and nd.lineno < eg.lineno:
                        test = ("neg", nd.test)
            if test is None:
                results.append(("contraction-is-dominated-by-the-purity-test", "failed", "the eigen-decomposition is not guarded by a tolerance test"))
            else:
                kind, t = test
                okform = (isinstance(t, ast.Compare) and len(t.ops) == 1 and isinstance(t.ops[0], (ast.Lt, ast.LtE) if kind == "pos" else (ast.GtE, ast.Gt))
                          and ast.unparse(t.comparators[0]) == "tol" and isinstance(t.left, ast.Call) and ast.unparse(t.left.func) in ("jnp.abs", "np.abs", "abs")
                          and isinstance(t.left.args[0], ast.BinOp) and isinstance(t.left.args[0].op, ast.Sub))
                if not okform:
                    results.append(("contraction-is-dominated-by-the-purity-test", "unknown", f"test `{ast.unparse(t)[:60]}` not of the form abs(Q - 1) < tol"))
                else:
                    try:
                        qv = sp.expand(mev(t.left.args[0].left, me, env))
                        one = mev(t.left.args[0].right, me, env)
                        ok = sp.simplify(qv - want_purity) == 0 and one == 1
                        results.append(("contraction-is-dominated-by-the-purity-test", "discharged" if ok else "failed",
                                        f"guard `{ast.unparse(t)[:70]}`: Q {'==' if ok else '!='} Tr(rho^2)"))
                    except Outside as o:
                        results.append(("contraction-is-dominated-by-the-purity-test", "unknown", f"outside subset: {o}"))
            # the stored vector: eigenvectors[:, argmax(abs(eigenvalues - 1) < tol)]
            tgt = parents.get(id(eg))
            names = [x.id for x in tgt.targets[0].elts] if isinstance(tgt, ast.Assign) and isinstance(tgt.targets[0], ast.Tuple) and len(tgt.targets[0].elts) == 2 else None
            okcol = False
            detail = "pattern not found"
            if names:
                evals, evecs = names
                idx_defs = {nd.targets[0].id: nd.value for nd in ast.walk(fn) if isinstance(nd, ast.Assign) and len(nd.targets) == 1 and isinstance(nd.targets[0], ast.Name)}
                for nd in ast.walk(fn):
                    if isinstance(nd, ast.Subscript) and isinstance(nd.value, ast.Name) and nd.value.id == evecs and isinstance(nd.slice, ast.Tuple) and len(nd.slice.elts) == 2:
                        a, b = nd.slice.elts
                        col = isinstance(a, ast.Slice) and a.lower is None and a.upper is None
                        idx = idx_defs.get(b.id) if isinstance(b, ast.Name) else b
                        itxt = ast.unparse(idx).replace(" ", "") if idx is not None else ""
                        good_idx = itxt in (f"jnp.argmax(jnp.abs({evals}-1.0)<tol)", f"jnp.argmax(jnp.abs({evals}-1)<tol)")
                        okcol = col and good_idx
                        detail = f"`{ast.unparse(nd)}` with index `{itxt[:60]}`"
                        if not col:
                            detail += " (a ROW of the eigenvector matrix)"
            results.append(("stored-vector-is-the-eigenvector-column-of-eigenvalue-one", "discharged" if okcol else ("failed" if names and "ROW" in detail else "unknown"), detail))
        if has_label:
            # the vector -> label block: the `if` whose test mentions ExpansionLevel.Vector and `final`
            blocks = [nd for nd in ast.walk(fn) if isinstance(nd, ast.If) and "ExpansionLevel.Vector" in ast.unparse(nd.test) and "final" in ast.unparse(nd.test)
                      and "self.expansion_level" in ast.unparse(nd.test).replace(me + ".", "self.")]
            if len(blocks) != 1:
                results.append(("label-only-for-an-exact-basis-state", "unknown", f"{len(blocks)} vector->label block(s)"))
            else:
                # the contraction tolerance `tol` (1e-6) or an explicit atol / rtol must not decide a label; jnp.allclose with its default
                # (machine-level) tolerances is how 1/sqrt(2) amplitudes are recognised and counts as exact recognition
                toler = sorted({nd.id for s in blocks[0].body for nd in ast.walk(s) if isinstance(nd, ast.Name) and nd.id == "tol"}
                               | {k.arg for s in blocks[0].body for nd in ast.walk(s) if isinstance(nd, ast.Call) for k in nd.keywords if k.arg in ("atol", "rtol")})
                results.append(("label-only-for-an-exact-basis-state", "failed" if toler else "discharged",
                                f"the vector -> label block uses a tolerance ({', '.join(toler)})" if toler else "no tolerance in the vector -> label block"))
        fsrc = ast.get_source_segment(src, fn) or ""
        for name, status, detail in results:
            oid = f"{fq}::ensures:{name}"
            if status == "unknown":
                rep.not_covered(fq, fsrc, f"{name}: {detail}")
                continue
            rep.add_ob(Obligation(oid, fq, "ensures", "sympy", status, detail=detail))
            if status == "failed":
                rep.violation(f"{fq}: {name}: {detail}", key=f"P:{oid}",
                              replay={"kind": "obligation", "function": fq, "failed_obligations": [oid], "solver_output": detail}, no_input=True)


def run(rep, tier):
    kernels.oracle_self_check(rep)
    outer_product_obligations(rep)
    contract_body_obligations(rep)
    seed = common.seed()
    st = [c for c in morecells.structural_cells(tier, seed) if c["action"]["what"] in ("expand", "contract")]
    B.run_b(rep, st, ["C08"], tier=tier)
    sample = opcells.single_target_cells(tier, seed)[::6] + opcells.multi_target_cells(tier, seed)[::6] + morecells.kraus_cells(tier, seed)[::5]
    msample = morecells.measure_cells(tier, seed)[::5] + morecells.povm_cells(tier, seed)[::5]
    for c in sample + msample:
        c["twin_contraction"] = True
    B.run_b(rep, sample, ["C08"], tier=tier)
    B.run_b(rep, msample, ["C08"], explore=True, tier=tier)
    rep.assume("contract bodies: jnp.linalg.eigh returns the eigen-decomposition of a Hermitian matrix (trusted, JAX); an identity between expressions built from "
               "transposition / conjugation / sums that holds for a generic 3x3 Hermitian matrix holds in every dimension (the operations are index-uniform); "
               "jnp.allclose with its default tolerances counts as exact recognition of a basis vector (1/sqrt(2) amplitudes are not representable)")
