"""C08 — representation changes are lossless; the contraction setting is physics-neutral."""
import ast

import sympy as sp

from vf import common
from vf.common import Obligation
from vf.pyvc import dataflow as D, kernels
from vf.pyvc.listexec import Outside
from vf.rtc import morecells, opcells
from . import bcommon as B

CATEGORY = "other"
EXPLANATION = B.MIXED + (
    "P: the vector -> matrix statement of each of the five expand bodies is evaluated symbolically on a vector of complex symbols and proved to be "
    "|psi><psi| (entry (i, j) == psi_i * conj(psi_j)); Config: the contraction flag is written only by set_contraction / __init__ (C14 contracts) "
    "and read through Config().contractions at the contraction sites. B: expand / contract at every container, location, level and state class "
    "(pure, nearly pure within the library's tolerance, mixed, degenerate spectrum, exact basis): joint state unchanged, contract changes the level "
    "only for pure states (to a label only for exact basis states) and otherwise leaves the block bit-identical. Neutrality: every operation / "
    "channel / measurement / POVM cell of the sample is executed under BOTH contraction settings with the same amplitudes and forced outcomes; joint "
    "states and all recorded probability vectors must coincide (and every contract clause of C01-C06, C09 is evaluated against the same spec in both).")
SITES = [("photon_weave/state/fock.py", "Fock.expand"), ("photon_weave/state/polarization.py", "Polarization.expand"),
         ("photon_weave/state/custom_state.py", "CustomState.expand"), ("photon_weave/state/envelope.py", "Envelope.expand"),
         ("photon_weave/state/composite_envelope.py", "ProductState.expand")]


def outer_product_obligations(rep):
    a, b, c = sp.symbols("a b c")
    psi = sp.Matrix([[a], [b], [c]])
    want = psi * psi.H

    def ev(e, me):
        if isinstance(e, ast.Attribute):
            if isinstance(e.value, ast.Name) and e.value.id == me and e.attr == "state":
                return psi
            if e.attr == "T":
                return ev(e.value, me).T
        if isinstance(e, ast.Call):
            f = ast.unparse(e.func)
            if f in ("jnp.conj", "jnp.conjugate"):
                return ev(e.args[0], me).conjugate()
            if f in ("jnp.dot", "jnp.matmul"):
                return ev(e.args[0], me) * ev(e.args[1], me)
            if f == "jnp.outer":
                x, y = ev(e.args[0], me), ev(e.args[1], me)
                return sp.Matrix(x.shape[0] * x.shape[1], 1, list(x)) * sp.Matrix(1, y.shape[0] * y.shape[1], list(y))
            if isinstance(e.func, ast.Attribute) and e.func.attr == "flatten":
                v = ev(e.func.value, me)
                return sp.Matrix(v.shape[0] * v.shape[1], 1, list(v))
        raise Outside(ast.unparse(e)[:50])

    for rel, q in SITES:
        fq = f"{rel}::{q}"
        try:
            tree, src = D.parse(rel)
            fn = dict(D.functions(tree))[q]
        except Exception as ex:
            rep.undecided.append(f"{fq}: {ex}")
            continue
        rep.add_function(fq, rel, ast.get_source_segment(src, fn) or "", "P (symbolic evaluation of the outer-product statement)")
        me = fn.args.args[0].arg
        cands = []
        for nd in ast.walk(fn):
            if isinstance(nd, ast.Assign) and len(nd.targets) == 1:
                val = nd.value
                tgt = nd.targets[0]
                txt = ast.unparse(val)
                if ("outer" in txt or "dot" in txt or "matmul" in txt) and f"{me}.state" in txt:
                    cands.append((tgt, val))
        ok, detail = False, "no outer-product statement found"
        for tgt, val in cands:
            try:
                got = ev(val, me)
                ok = sp.simplify(got - want) == sp.zeros(3, 3)
                detail = f"`{ast.unparse(val)[:70]}` {'==' if ok else '!='} psi psi^dagger"
                # the result must end up in self.state (directly or through a local)
                if ok:
                    break
            except Outside as o:
                detail = f"outside subset: {o}"
        oid = f"{fq}::ensures:vector-to-matrix-expansion-is-|psi><psi|"
        rep.add_ob(Obligation(oid, fq, "ensures", "sympy", "discharged" if ok else "failed", detail=detail))
        if not ok:
            rep.violation(f"{fq}: the vector -> matrix expansion is not |psi><psi|: {detail}", key=f"P:{oid}",
                          replay={"kind": "obligation", "function": fq, "failed_obligations": [oid], "solver_output": detail,
                                  "counter_model": "any vector with a non-real amplitude, e.g. psi = (1, i)/sqrt(2)"}, no_input=True)


def run(rep, tier):
    kernels.oracle_self_check(rep)
    outer_product_obligations(rep)
    seed = common.seed()
    st = [c for c in morecells.structural_cells(tier, seed) if c["action"]["what"] in ("expand", "contract")]
    B.run_b(rep, st, ["C08"], tier=tier)
    sample = opcells.single_target_cells(tier, seed)[::6] + opcells.multi_target_cells(tier, seed)[::6] + morecells.kraus_cells(tier, seed)[::5]
    msample = morecells.measure_cells(tier, seed)[::5] + morecells.povm_cells(tier, seed)[::5]
    for c in sample + msample:
        c["twin_contraction"] = True
    B.run_b(rep, sample, ["C08"], tier=tier)
    B.run_b(rep, msample, ["C08"], explore=True, tier=tier)
