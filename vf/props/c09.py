"""C09 — POVM measurement."""
from vf import common
from vf.pyvc import kernels
from vf.rtc import morecells
from . import bcommon as B

CATEGORY = "other"
EXPLANATION = B.MIXED + (
    "P: apply_operator_matrix binding and trace_out_matrix partial-trace patterns used by ProductState.measure_POVM. B: projective and non-projective "
    "complete operator sets at every entry point / layout / target order, every outcome branch forced: drawn probabilities == Tr(M rho M^dagger), "
    "post state == (M x I) rho (M x I)^dagger / p (destroyed subsystems may be sampled with an unreported outcome - an unravelling - or traced out), "
    "fate of targets and partners per the single spec of DESIGN section 7, non-destructive mode destroys nothing.")


def run(rep, tier):
    kernels.oracle_self_check(rep)
    kernels.run_generators(rep, ["apply_operator_matrix", "trace_out_matrix"])
    from vf.pyvc import tensors
    tensors.run_tensor_contracts(rep, ["C09"])
    kernels.run_delegation(rep, ['measure_POVM'])
    from vf import lemmas
    lemmas.lemma_obligations(rep, ["complete_set_preserves_trace"])
    B.run_b(rep, morecells.povm_cells(tier, common.seed()), ["C09"], explore=True, tier=tier)
    extra = [c for c in morecells.three_space_cells(tier, common.seed()) + morecells.stale_cache_cells(tier, common.seed()) if c["action"]["kind"] == "povm"]
    B.run_b(rep, extra, ["C09"], explore=True, tier=tier)
