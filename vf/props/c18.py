"""C18 — distinct subsystems are never confused, even when they hold equal values."""
import ast

import numpy as np

from vf import common
from vf.common import Obligation
from vf.pyvc import dataflow as D, eqsites as E, kernels
from vf.rtc import cells as CE, layouts as LY, morecells, run as RUN
from . import bcommon as B

CATEGORY = "other"
EXPLANATION = B.MIXED + (
    "P: (1) contract of Fock.__eq__ (value equality only when BOTH operands hold their own state of the same kind; never equal to an extracted "
    "subsystem) decided by complete enumeration of the state-kind pairs on the real method; Polarization, CustomState, Envelope, CompositeEnvelope "
    "define no __eq__ (identity); (2) one obligation per membership / index / remove / == / set site over subsystems in the anchored files (sites are "
    "enumerated from the AST on every run, so a new site is a new obligation): eq-based result == identity-based result because the container holds "
    "extracted subsystems only, or the left operand is extracted, or the comparison is on uids / by identity. A site over a list that can hold two "
    "own-state Fock objects is refuted (counter-model: two distinct Focks with equal labels). B (metamorphic twins, bounded): measurement / combine / "
    "partial-trace cells in which several Fock subsystems hold the same label or identical arrays satisfy the same contracts (one outcome entry per "
    "object, same objects measured, same block partition) as with distinct values.")
FILES = ["photon_weave/state/composite_envelope.py", "photon_weave/state/envelope.py", "photon_weave/state/fock.py", "photon_weave/state/base_state.py",
         "photon_weave/extra/einsum_constructor.py", "photon_weave/state/polarization.py", "photon_weave/state/custom_state.py"]


def eq_contract(rep):
    common.use_repo()
    import jax.numpy as jnp
    from photon_weave.state.custom_state import CustomState
    from photon_weave.state.fock import Fock
    from photon_weave.state.polarization import Polarization
    fq = "photon_weave/state/fock.py::Fock.__eq__"
    kinds = {"none": lambda: None, "int": lambda: 1, "vec": lambda: jnp.array([[0.0], [1.0]]), "mat": lambda: jnp.array([[0.0, 0], [0, 1.0]])}
    bad = []
    for ka, fa in kinds.items():
        for kb, fb in kinds.items():
            a, b = Fock(), Fock()
            a.state, b.state = fa(), fb()
            r = (a == b)
            want_possible = ka == kb and ka != "none"
            if r and not want_possible:
                bad.append(f"{ka} == {kb} is True")
            if ka == kb == "int" and not r:
                bad.append("equal labels compare unequal (value equality expected by the documented contract)")
            if not (a == a):
                pass
    rep.add_ob(Obligation(f"{fq}::ensures:never-equal-to-an-extracted-subsystem", fq, "ensures", "eval",
                          "failed" if bad else "discharged", detail="; ".join(bad) or "16 state-kind pairs enumerated on the real method"))
    if bad:
        rep.violation(f"{fq}: {bad[0]}", key=f"P:{fq}", replay={"kind": "eq", "cases": bad, "failed_obligations": [fq]})
    # classes that must not define __eq__
    for rel, cls in (("photon_weave/state/polarization.py", "Polarization"), ("photon_weave/state/custom_state.py", "CustomState"),
                     ("photon_weave/state/envelope.py", "Envelope"), ("photon_weave/state/composite_envelope.py", "CompositeEnvelope"),
                     ("photon_weave/state/base_state.py", "BaseState")):
        try:
            tree, _ = D.parse(rel)
            c = next(n for n in tree.body if isinstance(n, ast.ClassDef) and n.name == cls)
            has = any(isinstance(n, ast.FunctionDef) and n.name == "__eq__" for n in c.body)
        except Exception as ex:
            rep.undecided.append(f"{rel}::{cls}: {ex}")
            continue
        oid = f"{rel}::{cls}::ensures:equality-is-identity(no __eq__)"
        rep.add_ob(Obligation(oid, f"{rel}::{cls}", "ensures", "scope", "failed" if has else "discharged"))
        if has:
            rep.violation(f"{rel}::{cls} defines __eq__: equality of {cls} objects is no longer identity; every membership site over them must be re-justified",
                          key=f"P:{oid}", replay={"kind": "eq-class", "class": cls, "failed_obligations": [oid]}, no_input=True)


def classify(s):
    """Returns (status, justification)."""
    k, expr, fn, rel = s["kind"], s["expr"], s["function"], s["file"]
    if k == "extracted":
        return True, "container holds extracted subsystems only (product-state member list or a copy of it)"
    if rel.endswith("einsum_constructor.py"):
        return True, "generator precondition eq_is_identity: members of state_objs are extracted (monitored at level B)"
    if ".uid" in expr:
        return True, "comparison of uids"
    if s["op"] == "remove" and s["container"].endswith(".states"):
        return True, "ProductState dataclass equality differs on the uid field before any array is compared (uids unique)"
    if "composite_envelope" in expr or ".envelope ==" in expr or expr.endswith(".envelope"):
        return True, "Envelope / CompositeEnvelope define no __eq__: identity"
    if k == "hash-eq":
        return True, "set keyed by hash(uid): distinct objects have distinct uids (assumption A-uid); only len() is used"
    if fn == "Envelope.trace_out" and s["container"] == "states":
        return True, "left operand iterates the members of a combined envelope, which are extracted"
    return False, "the list can hold two Fock objects with their own, equal state: `==` (value equality) and `is` disagree"


def site_obligations(rep):
    n = 0
    for rel in FILES:
        try:
            ss = E.sites(rel)
        except Exception as ex:
            rep.undecided.append(f"{rel}: {ex}")
            continue
        for s in ss:
            n += 1
            ok, why = classify(s)
            fq = f"{rel}::{s['function']}"
            oid = f"{fq}::eq-is-identity:{s['op']}:{s['expr'][:60]}@{s['line']}"
            rep.add_ob(Obligation(oid, fq, "requires", "dataflow", "discharged" if ok else "failed", detail=why))
            if not ok:
                rep.violation(f"{fq} line {s['line']}: `{s['expr']}` decides by value equality over subsystems that may hold equal own states: {why}",
                              key=f"P:{fq}:eqsite:{s['op']}:{s['expr'][:60]}",
                              replay={"kind": "eqsite", **s, "counter_model": "two distinct Fock() objects, both in label state 0", "failed_obligations": [oid]},
                              no_input=True)
    rep.add_ob(Obligation("cover:eq-sites-found", "all", "cover", "dataflow", "discharged" if n >= 20 else "failed", detail=f"{n} sites enumerated"))
    rep.obligation_samples.append({"eq_sites": n})


def twin_cells(tier, seed):
    """Metamorphic twins: all Fock subsystems hold the SAME label / identical arrays (and polarizations the same label)."""
    cells = []
    ms = morecells
    for tag, blocks in (("own", []), ("ps:p0,p1", [("ps", ["e0.p", "e1.p"])]), ("ps:f0,f1|p0,p1", [("ps", ["e0.f", "e1.f"]), ("ps", ["e0.p", "e1.p"])]),
                        ("env01+env1", [("env", ["e0.f", "e0.p"]), ("env", ["e1.p", "e1.f"])])):
        for lab in (0, 1):
            for lv in ("L", "V"):
                if lv == "V" and tag != "own":
                    continue
                spec = LY.make_spec(blocks, {b[1][0]: "V" for b in blocks}, {b[1][0]: "basis" for b in blocks}, default_level=lv, default_cls="basis",
                                    labels={"e0.f": lab, "e1.f": lab}, fock_dims={"e0": 3, "e1": 3})
                for b in spec["blocks"]:
                    if b["kind"] != "own":
                        b["cls"] = "basis"
                R = lambda m: LY.rename(spec, m)
                for entry, tg, flags in (("ce", ["e0.f", "e1.p"], {}), ("ce", ["e1.p", "e0.f"], {}), ("ce", ["e0.p", "e1.p"], {}), ("ce", ["e0.f", "e1.f"], {"separate_measurement": True}), ("ce", ["e1.f"], {"destructive": False}),
                                         ("ce", ["e0.f", "e1.f", "c0"], {}), ("self", ["e0.f"], {}), ("env", ["e1.f"], {})):
                    cells.append({"world": spec, "layout": tag, "levels": lv, "cls": "equal-values", "contraction": True, "seed": seed, "variant": f"label{lab}",
                                  "flags": ",".join(flags) or "default", "reordered": True,
                                  "action": {"kind": "measure", "entry": entry, "targets": [R(t) for t in tg], "flags": flags}})
                for what, tg in (("combine", ["e0.f", "e1.f"]), ("combine", ["e1.f", "c0", "e0.f"]), ("reorder", ["e1.f", "e0.f"])):
                    cells.append({"world": spec, "layout": tag, "levels": lv, "cls": "equal-values", "contraction": True, "seed": seed, "variant": what, "reordered": True,
                                  "action": {"kind": "structural", "what": what, "entry": "ce", "targets": [R(t) for t in tg]}})
                for tg in (["e0.f"], ["e1.f", "e0.f"], ["e1.f"]):
                    cells.append({"world": spec, "layout": tag, "levels": lv, "cls": "equal-values", "contraction": True, "seed": seed, "variant": "trace_out", "reordered": True,
                                  "action": {"kind": "trace_out", "entry": "ce", "targets": [R(t) for t in tg]}})
                cells.append({"world": spec, "layout": tag, "levels": lv, "cls": "equal-values", "contraction": True, "seed": seed, "variant": "bs", "reordered": True,
                              "action": {"kind": "op", "entry": "ce", "fam": "Composite", "type": "NonPolarizingBeamSplitter", "params": {"eta": 0.5},
                                         "targets": [R("e1.f"), R("e0.f")]}})
    return cells


def run(rep, tier):
    eq_contract(rep)
    site_obligations(rep)
    kernels.run_generators(rep, ["measure_vector", "apply_operator_vector"])
    cells = twin_cells(tier, common.seed())
    res = RUN.explore_outcomes(None, cells, max_branch=2, depth=2)
    RUN.evaluate(rep, res, ["C18", "C05", "C02", "C20", "C13", "C04", "C03"])
    rep.bounds["twin_cells"] = len(cells)
    rep.assume("A-uid: uuid4 values of distinct objects are distinct and do not collide in hash()", *B.B_ASSUME)
    rep.trust("pyvc site enumeration (own code)")
