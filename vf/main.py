"""CLI:  ./check <Cnn> [--tier quick|thorough]   |   ./check replay <file>   |   ./check selftest ...   |   ./check selftest-harmless ..."""
from __future__ import annotations

import argparse
import importlib
import json
import os
import sys
import traceback

from vf import common


def run_property(pid: str, tier: str) -> int:
    common.use_repo()
    mod = importlib.import_module(f"vf.props.{pid.lower()}")
    rep = common.Report(pid, tier)
    try:
        mod.run(rep, tier)
    except Exception:
        # a crash of the checker is never a verdict about the repository
        traceback.print_exc()
        rep.broken.append("checker crashed: " + traceback.format_exc(limit=3).strip().splitlines()[-1])
    return rep.finish(mod.CATEGORY, mod.EXPLANATION, f"./check {pid} --tier {tier}")


def main(argv=None) -> int:
    argv = list(sys.argv[1:] if argv is None else argv)
    if not argv:
        print(__doc__)
        return 3
    if argv[0] == "replay":
        from vf import replay
        return replay.main(argv[1:])
    if argv[0] == "selftest":
        from vf import selftest
        return selftest.main(argv[1:])
    if argv[0] == "selftest-harmless":
        from vf import selftest
        return selftest.harmless(argv[1:])
    ap = argparse.ArgumentParser()
    ap.add_argument("prop")
    ap.add_argument("--tier", default=os.environ.get("VERIF_TIER", "quick"), choices=["quick", "thorough"])
    a = ap.parse_args(argv)
    return run_property(a.prop.upper(), a.tier)


if __name__ == "__main__":
    sys.exit(main())
