"""Straight-line field-effect executor for small methods (Config, Operation): symbolic evaluation of
`self.<field> = expr`, tuple assignments, returns, with uninterpreted library functions.  Produces the
method's write set and return value as z3 terms; the contract compares them (frame = exact write set)."""
from __future__ import annotations

import ast
from typing import Any, Dict, List, Optional, Tuple

import z3

from .listexec import Outside

V = z3.DeclareSort("PyVal")
_funcs: Dict[Tuple[str, int], Any] = {}


def ufun(name: str, arity: int):
    k = (name, arity)
    if k not in _funcs:
        _funcs[k] = z3.Function(name, *([V] * arity), V)
    return _funcs[k]


class FieldExec:
    def __init__(self, fn: ast.FunctionDef, known_calls: Dict[str, str], helpers: Optional[Dict[str, ast.FunctionDef]] = None):
        """known_calls: dotted callee name -> uninterpreted function name ('pair:<f>' for 2-tuple results); helpers: methods of the same class,
        a call `self.<h>(...)` / `cls.<h>(...)` to a helper whose body is a single `return <expr>` is inlined"""
        self.fn = fn
        self.known = known_calls
        self.helpers = helpers or {}
        self.self_name = fn.args.args[0].arg
        self.env: Dict[str, Any] = {a.arg: z3.Const("arg_" + a.arg, V) for a in fn.args.args[1:]}
        self.fields0: Dict[str, Any] = {}
        self.writes: Dict[str, Any] = {}
        self.ret: Optional[Any] = None
        self.other_effects: List[str] = []

    def field(self, name: str):
        if name in self.writes:
            return self.writes[name]
        if name not in self.fields0:
            self.fields0[name] = z3.Const("old_" + name, V)
        return self.fields0[name]

    def ev(self, e):
        if isinstance(e, ast.Name):
            if e.id in self.env:
                return self.env[e.id]
            raise Outside(f"unbound {e.id}")
        if isinstance(e, ast.Attribute) and isinstance(e.value, ast.Name) and e.value.id == self.self_name:
            return self.field(e.attr)
        if isinstance(e, ast.Constant):
            return z3.Const("const_" + repr(e.value).replace(" ", "_"), V)
        if isinstance(e, ast.Call):
            name = ast.unparse(e.func)
            if name in self.known and not e.keywords:
                f = self.known[name]
                args = [self.ev(a) for a in e.args]
                if f.startswith("pair:"):
                    base = f[5:]
                    return ("pair", ufun(base + "0", len(args))(*args), ufun(base + "1", len(args))(*args))
                return ufun(f, len(args))(*args)
            # one-expression helper of the same class (e.g. a static `_make_key(seed)`): inline it
            if isinstance(e.func, ast.Attribute) and isinstance(e.func.value, ast.Name) and e.func.value.id in (self.self_name, "cls", "Config") \
                    and e.func.attr in self.helpers and not e.keywords:
                h = self.helpers[e.func.attr]
                body = [s for s in h.body if not (isinstance(s, ast.Expr) and isinstance(s.value, ast.Constant))]
                hp = [a.arg for a in h.args.args]
                static = any(isinstance(d, ast.Name) and d.id == "staticmethod" for d in h.decorator_list)
                if not static:
                    hp = hp[1:]
                if len(body) == 1 and isinstance(body[0], ast.Return) and body[0].value is not None and len(hp) == len(e.args):
                    saved = dict(self.env)
                    self.env = dict(zip(hp, [self.ev(a) for a in e.args]))
                    try:
                        return self.ev(body[0].value)
                    finally:
                        self.env = saved
            raise Outside(f"call to {name} has no contract")
        raise Outside(f"{type(e).__name__} at line {getattr(e, 'lineno', '?')}")

    def assign(self, tgt, val):
        if isinstance(tgt, ast.Name):
            self.env[tgt.id] = val
        elif isinstance(tgt, ast.Attribute) and isinstance(tgt.value, ast.Name) and tgt.value.id == self.self_name:
            self.writes[tgt.attr] = val
        elif isinstance(tgt, ast.Tuple) and isinstance(val, tuple) and val[0] == "pair" and len(tgt.elts) == 2:
            self.assign(tgt.elts[0], val[1])
            self.assign(tgt.elts[1], val[2])
        else:
            self.other_effects.append(f"store to {ast.unparse(tgt)} at line {tgt.lineno}")

    def run(self):
        for s in self.fn.body:
            if isinstance(s, ast.Expr) and isinstance(s.value, ast.Constant):
                continue
            if self.ret is not None:
                raise Outside("statement after return")
            if isinstance(s, ast.Assign) and len(s.targets) == 1:
                self.assign(s.targets[0], self.ev(s.value))
            elif isinstance(s, ast.AnnAssign) and s.value is not None:
                self.assign(s.target, self.ev(s.value))
            elif isinstance(s, ast.Return):
                self.ret = self.ev(s.value) if s.value is not None else "None"
            else:
                raise Outside(f"{type(s).__name__} at line {s.lineno}")
        return self


def equal(a, b) -> bool:
    if isinstance(a, str) or isinstance(b, str):
        return a == b
    s = z3.Solver()
    s.add(a != b)
    return s.check() == z3.unsat
