"""pyvc, part 3: symbolic execution of the operator constructors of photon_weave/_math/ops.py (C12, C11).

(a) Parametrised 2x2 gates (rx, ry, rz, u3): the AST is evaluated over complex polynomials in trig atoms
    (cos/sin of half angles, expanded by the addition formulas; exp(i x) = cos x + i sin x).  An identity
    between matrices becomes, entry by entry, a polynomial identity modulo the relations C^2 + S^2 = 1,
    discharged by z3 (QF_NRA) with an independent second opinion by polynomial reduction (sympy).
(b) Ladder / number / phase operators and the displacement / squeezing / beam-splitter generators at a
    SYMBOLIC cut-off: banded matrices {offset: entry(row)} closed under conj, transpose, +, scalar *, @ and
    kron; sqrt(n) is an uninterpreted positive root (sq(n)^2 = n).  Obligations are quantified over the row index.
Machine arithmetic is treated as mathematical (stated in the evidence).
"""
from __future__ import annotations

import ast
from fractions import Fraction
from typing import Any, Callable, Dict, List, Optional, Tuple

import sympy as sp
import z3

from .listexec import Outside

I = sp.I


# =================================================================================================== (a) gates
class GateEval:
    """Evaluates the body of a gate constructor to a 2x2 (or nxn) sympy matrix over trig expressions."""

    def __init__(self, fn: ast.FunctionDef, args: Dict[str, Any]):
        self.fn = fn
        self.env: Dict[str, Any] = dict(args)

    def ev(self, e):
        if isinstance(e, ast.Constant):
            if isinstance(e.value, complex):
                return sp.nsimplify(e.value.real) + I * sp.nsimplify(e.value.imag)
            if isinstance(e.value, (int, float)):
                return sp.nsimplify(e.value)
            raise Outside(f"constant {e.value!r}")
        if isinstance(e, ast.Name):
            if e.id in self.env:
                return self.env[e.id]
            raise Outside(f"unbound {e.id}")
        if isinstance(e, ast.Attribute):
            t = ast.unparse(e)
            if t in ("np.pi", "jnp.pi", "math.pi"):
                return sp.pi
            if e.attr == "T":
                return self.ev(e.value).T
            raise Outside(f"attribute {t}")
        if isinstance(e, ast.UnaryOp) and isinstance(e.op, ast.USub):
            return -self.ev(e.operand)
        if isinstance(e, ast.BinOp):
            a, b = self.ev(e.left), self.ev(e.right)
            if isinstance(e.op, ast.Add):
                return a + b
            if isinstance(e.op, ast.Sub):
                return a - b
            if isinstance(e.op, ast.Mult):
                return a * b
            if isinstance(e.op, ast.Div):
                return a / b
            if isinstance(e.op, ast.MatMult):
                return a * b
            raise Outside(f"operator {type(e.op).__name__}")
        if isinstance(e, ast.List):
            return [self.ev(x) for x in e.elts]
        if isinstance(e, ast.Call):
            f = ast.unparse(e.func)
            if f in ("jnp.cos", "np.cos"):
                return sp.cos(self.ev(e.args[0]))
            if f in ("jnp.sin", "np.sin"):
                return sp.sin(self.ev(e.args[0]))
            if f in ("jnp.exp", "np.exp"):
                x = sp.expand(self.ev(e.args[0]))
                re, im = sp.re(x), sp.im(x)
                # only purely imaginary exponents of real parameters occur: exp(i t) = cos t + i sin t
                t = sp.simplify(x / I)
                if sp.im(t) != 0 and not t.is_real and any(s.is_real is False for s in t.free_symbols):
                    raise Outside("exp of a non-imaginary argument")
                return sp.cos(t) + I * sp.sin(t)
            if f in ("jnp.sqrt", "np.sqrt"):
                return sp.sqrt(self.ev(e.args[0]))
            if f in ("jnp.array", "np.array"):
                v = self.ev(e.args[0])
                return sp.Matrix(v)
            if f == "jnp.eye":
                n = e.keywords[0].value.value if e.keywords else e.args[0].value
                return sp.eye(n)
            if f in ("jnp.conj", "jnp.conjugate"):
                return self.ev(e.args[0]).conjugate()
            raise Outside(f"call {f}")
        raise Outside(f"{type(e).__name__}")

    def run(self):
        ret = None
        for s in self.fn.body:
            if isinstance(s, ast.Expr) and isinstance(s.value, ast.Constant):
                continue
            if isinstance(s, ast.Assign) and len(s.targets) == 1 and isinstance(s.targets[0], ast.Name):
                self.env[s.targets[0].id] = self.ev(s.value)
            elif isinstance(s, ast.Return):
                ret = self.ev(s.value)
                break
            else:
                raise Outside(f"{type(s).__name__} at line {s.lineno}")
        if ret is None:
            raise Outside("no return")
        return sp.Matrix(ret)


def atomise(expr, table: Dict[Any, Tuple[sp.Symbol, sp.Symbol]]):
    """Rewrite trig functions of linear forms into polynomial atoms C_x, S_x (one pair per distinct single-symbol argument)."""
    expr = sp.expand_trig(sp.expand(expr))
    for f in list(expr.atoms(sp.cos, sp.sin)):
        a = f.args[0]
        if not a.free_symbols:
            continue
        key = sp.nsimplify(a)
        # normalise sign: cos(-x) / sin(-x) are already normalised by sympy's canonical forms
        if key not in table:
            k = len(table)
            table[key] = (sp.Symbol(f"C{k}", real=True), sp.Symbol(f"S{k}", real=True))
        c, s = table[key]
        expr = expr.subs(f, c if isinstance(f, sp.cos) else s)
    return sp.expand(expr)


def poly_identity(diff, table) -> Tuple[str, str, Optional[dict]]:
    """Decide diff == 0 (complex polynomial in atoms) modulo C^2 + S^2 = 1.  Returns (status, backend, model)."""
    diff = sp.expand(diff)
    if diff.atoms(sp.cos, sp.sin):
        return "unknown", "pyvc", None
    re, im = sp.re(diff), sp.im(diff)
    # sqrt constants -> algebraic atoms
    roots: Dict[Any, sp.Symbol] = {}
    for part in (re, im):
        for r in part.atoms(sp.Pow):
            if r.exp == sp.Rational(1, 2) and r.base.is_number:
                roots.setdefault(r, sp.Symbol(f"R{len(roots)}", positive=True))
    re, im = re.subs(roots), im.subs(roots)
    atoms = [x for pair in table.values() for x in pair] + list(roots.values())
    rel = [c ** 2 + s ** 2 - 1 for c, s in table.values()] + [v ** 2 - k.base for k, v in roots.items()]
    # z3 (QF_NRA)
    zv = {a: z3.Real(str(a)) for a in atoms}

    def toz(p):
        p = sp.Poly(sp.expand(p), *atoms) if atoms else None
        if p is None:
            return z3.RealVal(str(sp.nsimplify(sp.expand(re if False else 0))))
        tot = z3.RealVal(0)
        for mon, coef in p.terms():
            term = z3.RealVal(str(sp.Rational(coef)))
            for a, k in zip(atoms, mon):
                for _ in range(k):
                    term = term * zv[a]
            tot = tot + term
        return tot
    try:
        if atoms:
            s = z3.Solver()
            s.set("timeout", 8000)
            for r in rel:
                s.add(toz(r) == 0)
            for v in roots.values():
                s.add(zv[v] > 0)
            s.add(z3.Or(toz(re) != 0, toz(im) != 0))
            r = s.check()
            if r == z3.unsat:
                return "discharged", "z3", None
            if r == z3.sat:
                m = s.model()
                return "failed", "z3", {str(a): str(m[zv[a]]) for a in atoms if m[zv[a]] is not None}
        else:
            ok = sp.simplify(re) == 0 and sp.simplify(im) == 0
            return ("discharged" if ok else "failed"), "sympy", None
    except Exception:
        pass
    # second opinion / fallback: polynomial reduction modulo the (Groebner) relation basis
    try:
        ok = True
        for part in (re, im):
            _, rem = sp.reduced(sp.expand(part), rel, *atoms) if rel else (None, sp.expand(part))
            if sp.expand(rem) != 0:
                ok = False
        return ("discharged" if ok else "failed"), "sympy-reduction", None
    except Exception as ex:
        return "unknown", "sympy-reduction", {"error": str(ex)}


def matrix_identity(A: sp.Matrix, B: sp.Matrix, table=None):
    """Entry-wise identity A == B; returns list of (entry, status, backend, model)."""
    table = {} if table is None else table
    out = []
    if A.shape != B.shape:
        return [("shape", "failed", "pyvc", {"shapes": f"{A.shape} vs {B.shape}"})]
    for i in range(A.shape[0]):
        for j in range(A.shape[1]):
            d = atomise(A[i, j] - B[i, j], table)
            st, be, model = poly_identity(d, table)
            out.append((f"[{i},{j}]", st, be, model))
    return out


# =================================================================================================== (b) banded matrices
class Banded:
    """Square matrix of symbolic size d: entry(i, i+off) = f_off(i) for 0 <= i < d and 0 <= i+off < d, zero elsewhere.
    Entries are pairs (re, im) of z3 Real expressions in the row index."""

    def __init__(self, d, bands: Dict[int, Callable]):
        self.d, self.bands = d, bands

    def entry(self, i, off):
        f = self.bands.get(off)
        if f is None:
            return (z3.RealVal(0), z3.RealVal(0))
        re, im = f(i)
        ok = z3.And(0 <= i, i < self.d, 0 <= i + off, i + off < self.d)
        return (z3.If(ok, re, z3.RealVal(0)), z3.If(ok, im, z3.RealVal(0)))

    def T(self):
        return Banded(self.d, {-o: (lambda f, o: (lambda i: f(i - o)))(f, o) for o, f in self.bands.items()})
        # (X^T)[i][i-o] = X[i-o][i] = f_o(i-o)

    def conj(self):
        return Banded(self.d, {o: (lambda f: (lambda i: (f(i)[0], -f(i)[1])))(f) for o, f in self.bands.items()})

    def scale(self, c):
        cr, ci = c
        return Banded(self.d, {o: (lambda f: (lambda i: (cr * f(i)[0] - ci * f(i)[1], cr * f(i)[1] + ci * f(i)[0])))(f) for o, f in self.bands.items()})

    def add(self, other, sign=1):
        bands = {}
        for o in set(self.bands) | set(other.bands):
            def mk(o):
                def g(i):
                    a = self.bands[o](i) if o in self.bands else (z3.RealVal(0), z3.RealVal(0))
                    b = other.bands[o](i) if o in other.bands else (z3.RealVal(0), z3.RealVal(0))
                    return (a[0] + sign * b[0], a[1] + sign * b[1])
                return g
            bands[o] = mk(o)
        return Banded(self.d, bands)

    def matmul(self, other):
        bands: Dict[int, Callable] = {}
        for a in self.bands:
            for b in other.bands:
                o = a + b

                def mk(a, b, prev):
                    def g(i):
                        x = self.bands[a](i)
                        y = other.bands[b](i + a)
                        mid = z3.And(0 <= i + a, i + a < self.d)
                        re = z3.If(mid, x[0] * y[0] - x[1] * y[1], z3.RealVal(0))
                        im = z3.If(mid, x[0] * y[1] + x[1] * y[0], z3.RealVal(0))
                        if prev is not None:
                            p = prev(i)
                            return (p[0] + re, p[1] + im)
                        return (re, im)
                    return g
                bands[o] = mk(a, b, bands.get(o))
        return Banded(self.d, bands)


sq = z3.Function("sq", z3.IntSort(), z3.RealSort())     # sq(n) = sqrt(n), n >= 0


def sq_axioms():
    n = z3.Int("n_sq")
    return [z3.ForAll([n], z3.Implies(n >= 0, z3.And(sq(n) * sq(n) == z3.ToReal(n), sq(n) >= 0)))]


def sq_instances(*exprs):
    """Ground instances of the root axiom for every sq(t) occurring in the given expressions (keeps queries quantifier free)."""
    seen = {}

    def walk(e):
        if z3.is_app(e):
            if e.decl().name() == "sq":
                seen[e.arg(0).get_id()] = e.arg(0)
            for ch in e.children():
                walk(ch)
    for e in exprs:
        walk(e)
    out = []
    for t in seen.values():
        out.append(z3.Implies(t >= 0, z3.And(sq(t) * sq(t) == z3.ToReal(t), sq(t) >= 0)))
    return out


class BandedEval:
    """Evaluates annihilation / creation / number / phase constructors (and generator expressions) to Banded matrices."""

    def __init__(self, fns: Dict[str, ast.FunctionDef], d, extra: Optional[Dict[str, Any]] = None):
        self.fns, self.d = fns, d
        self.extra = extra or {}

    def call_fn(self, name: str, args: List[Any], kwargs: Dict[str, Any]):
        fn = self.fns.get(name)
        if fn is None:
            raise Outside(f"constructor {name} not found")
        params = [a.arg for a in fn.args.args]
        env = dict(zip(params, args))
        env.update(kwargs)
        return self.run(fn, env)

    def run(self, fn, env):
        for s in fn.body:
            if isinstance(s, ast.Expr) and isinstance(s.value, ast.Constant):
                continue
            if isinstance(s, ast.Assign) and isinstance(s.targets[0], ast.Name):
                env[s.targets[0].id] = self.ev(s.value, env)
            elif isinstance(s, ast.Return):
                return self.ev(s.value, env)
            else:
                raise Outside(f"{type(s).__name__} at line {s.lineno}")
        raise Outside("no return")

    def ev(self, e, env):
        if isinstance(e, ast.Name):
            if e.id in env:
                return env[e.id]
            raise Outside(f"unbound {e.id}")
        if isinstance(e, ast.Constant):
            if isinstance(e.value, complex):
                return ("scalar", (z3.RealVal(str(e.value.real)), z3.RealVal(str(e.value.imag))))
            if isinstance(e.value, (int, float)):
                return ("scalar", (z3.RealVal(str(e.value)), z3.RealVal(0)))
            raise Outside("constant")
        if isinstance(e, ast.Attribute) and e.attr == "T":
            return self.ev(e.value, env).T()
        if isinstance(e, ast.BinOp):
            a, b = self.ev(e.left, env), self.ev(e.right, env)
            if isinstance(e.op, ast.MatMult) and isinstance(a, Banded) and isinstance(b, Banded):
                return a.matmul(b)
            if isinstance(e.op, ast.Mult):
                if isinstance(a, tuple) and a[0] == "scalar" and isinstance(b, Banded):
                    return b.scale(a[1])
                if isinstance(b, tuple) and b[0] == "scalar" and isinstance(a, Banded):
                    return a.scale(b[1])
                if isinstance(a, tuple) and isinstance(b, tuple) and a[0] == b[0] == "scalar":
                    (ar, ai), (br, bi) = a[1], b[1]
                    return ("scalar", (ar * br - ai * bi, ar * bi + ai * br))
                if isinstance(a, tuple) and a[0] == "seq" and isinstance(b, tuple) and b[0] == "scalar":
                    a, b = b, a
                if isinstance(b, tuple) and b[0] == "seq" and isinstance(a, tuple) and a[0] == "scalar":
                    f, c, val = b[2], a[1], self._val
                    return ("seq", b[1], lambda k: (val(f(k))[0] * c[0] - val(f(k))[1] * c[1], val(f(k))[0] * c[1] + val(f(k))[1] * c[0]))
            if isinstance(e.op, (ast.Add, ast.Sub)) and isinstance(a, Banded) and isinstance(b, Banded):
                return a.add(b, 1 if isinstance(e.op, ast.Add) else -1)
            raise Outside(f"binary {type(e.op).__name__} on {type(a).__name__}/{type(b).__name__}")
        if isinstance(e, ast.UnaryOp) and isinstance(e.op, ast.USub):
            v = self.ev(e.operand, env)
            if isinstance(v, tuple) and v[0] == "scalar":
                return ("scalar", (-v[1][0], -v[1][1]))
            raise Outside("unary minus")
        if isinstance(e, ast.Call):
            f = ast.unparse(e.func)
            kw = {k.arg: k.value for k in e.keywords}
            if f == "jnp.arange":
                # arange(stop) or arange(start, stop): sequence k -> start + k, k in [0, stop - start)
                args = [self.ev(a, env) for a in e.args]
                if len(args) == 1:
                    start, stop = 0, args[0]
                else:
                    start, stop = args[0], args[1]
                start = self._int(start)
                stop = self._int(stop)
                return ("seq", stop - start, (lambda st: (lambda k: ("int", st + k)))(start))
            if f == "jnp.sqrt":
                v = self.ev(e.args[0], env)
                if isinstance(v, tuple) and v[0] == "seq":
                    g = v[2]

                    def root(k, g=g):
                        x = g(k)
                        if not (isinstance(x, tuple) and isinstance(x[0], str) and x[0] == "int"):
                            raise Outside("sqrt of a non-integer sequence")
                        return (sq(x[1]), z3.RealVal(0))
                    return ("seq", v[1], root)
                raise Outside("sqrt")
            if f == "jnp.diag":
                v = self.ev(e.args[0], env)
                k = self._pyint(e.args[1]) if len(e.args) > 1 else 0
                if isinstance(v, tuple) and v[0] == "seq":
                    n, g = v[1], v[2]
                    size = n + abs(k)
                    # diag(v, k): entry (i, i+k) = v[i] for k >= 0 ; (i, i+k) = v[i+k] ... for k < 0 entry(i, i+k) = v[i+k]
                    if k >= 0:
                        band = lambda i: self._val(g(i))
                    else:
                        band = lambda i: self._val(g(i + k))
                    return Banded(size, {k: band})
                raise Outside("diag of a non-sequence")
            if f in ("jnp.conjugate", "jnp.conj"):
                v = self.ev(e.args[0], env)
                if isinstance(v, Banded):
                    return v.conj()
                if isinstance(v, tuple) and v[0] == "scalar":
                    return ("scalar", (v[1][0], -v[1][1]))
                raise Outside("conj")
            if f == "jnp.matmul":
                return self.ev(e.args[0], env).matmul(self.ev(e.args[1], env))
            if f in ("expm", "_expm"):
                return ("expm", self.ev(e.args[0], env))
            if f == "jnp.exp":
                v = self.ev(e.args[0], env)
                # exp(1j * n * theta) over a sequence of integers: unit-modulus entries E(n)
                if isinstance(v, tuple) and v[0] == "seq":
                    cn = z3.Function("cosn", z3.IntSort(), z3.RealSort())
                    sn = z3.Function("sinn", z3.IntSort(), z3.RealSort())
                    self.extra.setdefault("phase_axioms", []).append((cn, sn))
                    self.extra["phase_arg"] = v
                    return ("seq", v[1], lambda k: (cn(k), sn(k)))
                raise Outside("exp")
            if isinstance(e.func, ast.Name) and e.func.id in self.fns:
                args = [self.ev(a, env) for a in e.args]
                kws = {k: self.ev(v, env) for k, v in kw.items()}
                return self.call_fn(e.func.id, args, kws)
            raise Outside(f"call {f}")
        raise Outside(f"{type(e).__name__}")

    def _int(self, v):
        if isinstance(v, tuple) and v[0] == "scalar":
            r = z3.simplify(v[1][0])
            if z3.is_rational_value(r) and r.denominator_as_long() == 1:
                return z3.IntVal(r.numerator_as_long())
            raise Outside("non-integer where an integer is expected")
        if z3.is_expr(v) and z3.is_int(v):
            return v
        if isinstance(v, int):
            return z3.IntVal(v)
        if isinstance(v, tuple) and v[0] == "scalar":
            return v[1][0]
        raise Outside("integer expected")

    def _pyint(self, node):
        if isinstance(node, ast.Constant) and isinstance(node.value, int):
            return node.value
        if isinstance(node, ast.UnaryOp) and isinstance(node.op, ast.USub) and isinstance(node.operand, ast.Constant):
            return -node.operand.value
        raise Outside("literal offset expected")

    def _val(self, x):
        if isinstance(x, tuple) and len(x) == 2 and isinstance(x[0], str) and x[0] == "int":
            return (z3.ToReal(x[1]), z3.RealVal(0))
        return x
