"""Driver of the tensor call-site verifier: loads the real method, runs one abstract path per contract case, and turns the
outcome into obligations (callee-requires per site, rep-invariant, ensures)."""
from __future__ import annotations

import ast
import importlib.util
import time
from typing import Any, Dict, List

from vf import common
from vf.common import Obligation
from . import dataflow as D
from . import tensorexec as TX
from .listexec import Outside


def load_specs():
    p = common.VERIF / "contracts" / "proof" / "tensors.py"
    spec = importlib.util.spec_from_file_location("verif_contracts_tensors", p)
    m = importlib.util.module_from_spec(spec)
    spec.loader.exec_module(m)
    return m.SPECS


def _canon_scalar(w) -> str:
    if w[0] == "re":
        return f"re({_canon_scalar(w[1])})"
    if w[0] == "trace":
        x = w[1]
        return f"trace({TX.canon(TX.closed_trace(TX.tensor_term(x) if isinstance(x, TX.ATensor) else x))})"
    if w[0] == "norm":
        x = w[1]
        return f"{w[0]}({TX.canon(TX.tensor_term(x) if isinstance(x, TX.ATensor) else x)})"
    return str(w)


def _flat(t, ctx) -> bool:
    """one numpy axis per axis group (a tensor over single-member lists is flat and split at once)"""
    return (not t.split) or all(r == "one" or len(ctx.blocks[r]) == 1 for r in t.refs())


def run_case(spec: Dict[str, Any]):
    """returns list of (suffix, kind, status, detail)"""
    rel, q = spec["function"].split("::")
    tree, src = D.parse(rel)
    fn = dict(D.functions(tree)).get(q)
    if fn is None:
        return None, [("found", "scope", "unknown", f"{q} not found in {rel}")]
    ctx = spec["ctx"]()
    out = []
    case = spec["case"]
    try:
        ex = TX.TensorExec(fn, ctx, spec["level"], spec["env"](ctx), spec["fields"](ctx, spec["level"]),
                           lambda s, d=spec["decide"]: d.get(s), spec["ignore_calls"], spec["havoc_calls"], spec["checkpoint_calls"],
                           is_method=spec.get("is_method", True), loop=spec.get("loop"))
        cls_prefix = q.rsplit(".", 1)[0] + "." if "." in q else None
        if cls_prefix:
            ex.class_fns = {k[len(cls_prefix):]: v for k, v in D.functions(tree) if k.startswith(cls_prefix) and k.count(".") == cls_prefix.count(".")}
        ex.env_members = dict(spec.get("env_members", {}))
        ex.env_list = spec.get("env_list")
        res = ex.run()
    except TX.Refuted as r:
        return fn, [(f"{case}:{r.kind}", r.kind, "failed", r.msg)]
    except Outside as o:
        return fn, [(f"{case}:subset", "requires", "unknown", f"outside the supported subset: {o}")]
    # callee preconditions: one obligation per site kind on the path (ordinal within the path, not the line number)
    n_sites = len(res.sites)
    for i, (kind, line) in enumerate(res.sites):
        out.append((f"{case}:callee-requires#{i}:{kind.split(':')[0]}", "requires", "discharged", f"{kind} at line {line}"))
    if n_sites < spec.get("min_sites", 1):
        out.append((f"{case}:cover", "cover", "failed", f"only {n_sites} tensor site(s) were reached on this path, the contract expects at least {spec.get('min_sites')} (vacuity guard)"))
    else:
        out.append((f"{case}:cover", "cover", "discharged", f"{n_sites} sites reached, path ended by {res.ended}"))
    # representation invariant and ensures
    if "expect_state" in spec:
        st = res.state
        ok_layout = isinstance(st, TX.ATensor) and _flat(st, ctx) and st.refs() == tuple(spec["expect_layout"])
        mem_ok = isinstance(res.state_objs, TX.AList) and res.state_objs.ref == spec["expect_members"]
        out.append((f"{case}:rep-invariant", "invariant", "discharged" if (ok_layout and mem_ok) else "failed",
                    "" if (ok_layout and mem_ok) else f"stored tensor ranges over {st.refs() if isinstance(st, TX.ATensor) else st!r} (split={getattr(st, 'split', None)}), "
                    f"member list is {getattr(res.state_objs, 'ref', res.state_objs)!r}; expected axes {spec['expect_layout']} over members {spec['expect_members']}"))
        if isinstance(st, TX.ATensor):
            got, want = TX.canon(TX.tensor_term(st)), TX.canon(spec["expect_state"])
            out.append((f"{case}:ensures:state", "ensures", "discharged" if got == want else "failed", "" if got == want else f"stored content {got}; specified {want}"))
    if "expect_return" in spec:
        rv = res.returned
        ok = isinstance(rv, TX.ATensor) and _flat(rv, ctx) and rv.refs() == tuple(spec["expect_return_layout"])
        got = TX.canon(TX.tensor_term(rv)) if isinstance(rv, TX.ATensor) else repr(rv)
        want = TX.canon(spec["expect_return"])
        good = ok and got == want
        out.append((f"{case}:ensures:return", "ensures", "discharged" if good else "failed",
                    "" if good else f"returned {got} over {rv.refs() if isinstance(rv, TX.ATensor) else '?'}; specified {want} over {spec['expect_return_layout']}"))
        mem_ok = "expect_members" not in spec or (isinstance(res.state_objs, TX.AList) and res.state_objs.ref == spec["expect_members"])
        out.append((f"{case}:frame:members", "frame", "discharged" if mem_ok else "failed", "" if mem_ok else "member list changed"))
    if "expect_label_draw" in spec:
        d = res.state
        want = TX.canon(spec["expect_label_draw"]["p"])
        if not isinstance(d, TX.ADraw):
            out.append((f"{case}:ensures:label-is-the-drawn-outcome", "ensures", "failed" if isinstance(d, TX.ATensor) else "unknown",
                        f"the value stored in self.state after the measurement is {d!r}, not the drawn outcome"))
        elif not isinstance(d.p, TX.ATensor) or isinstance(d.a, TX.Unknown):
            out.append((f"{case}:ensures:draw-distribution", "ensures", "unknown", f"the distribution / support of the draw is not modelled (p = {d.p!r}, a = {d.a!r})"))
        else:
            got = TX.canon(TX.tensor_term(d.p))
            okp = got == want
            out.append((f"{case}:ensures:draw-distribution", "ensures", "discharged" if okp else "failed", "" if okp else f"outcome drawn with p = {got}; specified {want}"))
            oka = d.a == spec["expect_label_draw"]["a"]
            out.append((f"{case}:ensures:draw-support", "ensures", "discharged" if oka else "failed", "" if oka else f"outcomes drawn from {d.a!r}, specified {spec['expect_label_draw']['a']!r}"))
            out.append((f"{case}:ensures:label-is-the-drawn-outcome", "ensures", "discharged", "self.state = the drawn outcome"))
    if "expect_draw" in spec:
        ds = ex.loop_draws
        if len(ds) != 1:
            out.append((f"{case}:ensures:draw", "ensures", "unknown", f"{len(ds)} outcome(s) recorded for the measured subsystem in one iteration, expected exactly one"))
        elif not isinstance(ds[0].p, TX.ATensor) or isinstance(ds[0].a, TX.Unknown):
            out.append((f"{case}:ensures:draw", "ensures", "unknown", f"the distribution / support of the draw is not modelled (p = {ds[0].p!r}, a = {ds[0].a!r})"))
        else:
            d = ds[0]
            got = TX.canon(TX.tensor_term(d.p))
            want = TX.canon(spec["expect_draw"])
            okp = got == want
            out.append((f"{case}:ensures:draw-distribution", "ensures", "discharged" if okp else "failed", "" if okp else f"outcome drawn with p = {got}; specified {want}"))
            oka = d.a == ("range", ("dim", spec["loop"]["member"]))
            out.append((f"{case}:ensures:draw-support", "ensures", "discharged" if oka else "failed", "" if oka else f"outcomes drawn from {d.a!r}, specified range(dimensions of the measured subsystem)"))
    if "expect_probs" in spec:
        pl = ex.env.get(spec["probs_var"])
        if not isinstance(pl, TX.AProbList):
            pl = next((v for v in ex.env.values() if isinstance(v, TX.AProbList) and v.elem is not None), pl)
        w = spec["expect_probs"]
        want = f"re(trace({TX.canon(TX.closed_trace(w[1][1]))}))"
        if not (isinstance(pl, TX.AProbList) and pl.elem is not None):
            out.append((f"{case}:ensures:probabilities", "ensures", "unknown", f"the probability list is not modelled ({pl!r})"))
        else:
            try:
                got = _canon_scalar(pl.elem.what)
            except Outside as o:
                got = None
                out.append((f"{case}:ensures:probabilities", "ensures", "unknown", f"probability term outside the subset: {o}"))
            if got is not None:
                out.append((f"{case}:ensures:probabilities", "ensures", "discharged" if got == want else "failed", "" if got == want else f"probability of the generic operator is {got}; specified {want}"))
    return fn, out


def run_tensor_contracts(rep, props: List[str]):
    """adds the obligations of every tensor contract whose `properties` intersect props"""
    specs = [s for s in load_specs() if set(s["properties"]) & set(props)]
    seen = set()
    for spec in specs:
        t0 = time.time()
        rel, q = spec["function"].split("::")
        try:
            fn, obs = run_case(spec)
        except Exception as ex:         # a crash of the verifier is the checker's problem
            rep.broken.append(f"tensor contract {spec['function']} [{spec['case']}]: {type(ex).__name__}: {ex}")
            continue
        if fn is not None and spec["function"] not in seen:
            seen.add(spec["function"])
            tree, src = D.parse(rel)
            rep.add_function(spec["function"], rel, ast.get_source_segment(src, fn) or "", "P (tensor call-site contracts, pyvc)")
        dt = (time.time() - t0) / max(1, len(obs))
        fsrc = ""
        if fn is not None:
            tree_, src_ = D.parse(rel)
            fsrc = ast.get_source_segment(src_, fn) or ""
        for suffix, kind, status, detail in obs:
            oid = f"{spec['function']}::tensor:{suffix}"
            if status == "unknown":
                rep.not_covered(spec["function"], fsrc, f"tensor contract [{spec['case']}]: {detail}")
                continue
            rep.add_ob(Obligation(oid, spec["function"], kind, "pyvc", status, dt, detail))
            if status == "failed":
                rep.violation(f"{spec['function']} [{spec['case']}] violates its tensor contract ({kind}): {detail}", key=f"P:{oid}",
                              replay={"kind": "obligation", "function": spec["function"], "failed_obligations": [oid], "solver_output": [detail]}, no_input=True)
            elif status == "unknown":
                rep.undecided.append(f"{oid}: {detail}")
    rep.assume("tensor contracts: jnp.einsum / reshape / conj / trace have their NumPy semantics; a generated string realises its generator's contract (proved separately, "
               "engine.py); calls on other objects do not write this object's tensor; resize keeps layout and state (C10 contracts); the operator matrix "
               "has one tensor factor per operand in the caller's order (the statement's own convention)")
