"""Definedness obligations (DESIGN 3.3 kind 8): every global name *loaded at run time* in a function
body resolves in the module's run-time globals, builtins, or a binding local to the function
(parameters, assignments, imports, comprehension / loop / with / except targets) or an enclosing
function.  Names bound only under `if TYPE_CHECKING:` do not exist at run time.  Annotations are not
loads when the module has `from __future__ import annotations` (they are never evaluated) and
annotations of local variables are never evaluated.  Decided by an AST scope computation, not SMT.
"""
from __future__ import annotations

import ast
import builtins
from typing import Dict, List, Set, Tuple


def _is_type_checking(test: ast.AST) -> bool:
    return (isinstance(test, ast.Name) and test.id == "TYPE_CHECKING") or \
           (isinstance(test, ast.Attribute) and test.attr == "TYPE_CHECKING")


def module_runtime_globals(tree: ast.Module) -> Set[str]:
    out: Set[str] = set()

    def visit_block(stmts):
        for st in stmts:
            if isinstance(st, (ast.Import, ast.ImportFrom)):
                for a in st.names:
                    out.add((a.asname or a.name).split(".")[0])
            elif isinstance(st, (ast.FunctionDef, ast.AsyncFunctionDef, ast.ClassDef)):
                out.add(st.name)
            elif isinstance(st, (ast.Assign, ast.AnnAssign, ast.AugAssign)):
                for t in (st.targets if isinstance(st, ast.Assign) else [st.target]):
                    for nd in ast.walk(t):
                        if isinstance(nd, ast.Name):
                            out.add(nd.id)
            elif isinstance(st, ast.If):
                if _is_type_checking(st.test):
                    visit_block(st.orelse)
                else:
                    visit_block(st.body)
                    visit_block(st.orelse)
            elif isinstance(st, ast.Try):
                visit_block(st.body)
                for h in st.handlers:
                    visit_block(h.body)
                visit_block(st.orelse)
                visit_block(st.finalbody)
            elif isinstance(st, (ast.For, ast.While, ast.With)):
                visit_block(st.body)
    visit_block(tree.body)
    return out


def _local_bindings(fn: ast.AST) -> Set[str]:
    out: Set[str] = set()
    a = fn.args
    for x in a.posonlyargs + a.args + a.kwonlyargs:
        out.add(x.arg)
    if a.vararg:
        out.add(a.vararg.arg)
    if a.kwarg:
        out.add(a.kwarg.arg)

    class V(ast.NodeVisitor):
        def visit_FunctionDef(self, n):
            if n is not fn:
                out.add(n.name)
                return
            self.generic_visit(n)
        visit_AsyncFunctionDef = visit_FunctionDef

        def visit_ClassDef(self, n):
            out.add(n.name)

        def visit_Lambda(self, n):
            return

        def visit_Name(self, n):
            if isinstance(n.ctx, (ast.Store, ast.Del)):
                out.add(n.id)

        def visit_Import(self, n):
            for al in n.names:
                out.add((al.asname or al.name).split(".")[0])
        visit_ImportFrom = visit_Import

        def visit_ExceptHandler(self, n):
            if n.name:
                out.add(n.name)
            self.generic_visit(n)

        def visit_MatchAs(self, n):
            if n.name:
                out.add(n.name)
            self.generic_visit(n)
    V().visit(fn)
    return out


def undefined_names(tree: ast.Module, fn: ast.AST, enclosing: Set[str] = frozenset()) -> List[Tuple[str, int]]:
    future_ann = any(isinstance(st, ast.ImportFrom) and st.module == "__future__" and any(a.name == "annotations" for a in st.names)
                     for st in tree.body)
    glob = module_runtime_globals(tree)
    loc = _local_bindings(fn) | set(enclosing)
    bi = set(dir(builtins))
    bad: List[Tuple[str, int]] = []

    def loads(node, bound: Set[str]):
        """walk `node`, skipping annotations, handling comprehension / lambda scopes."""
        if isinstance(node, (ast.FunctionDef, ast.AsyncFunctionDef)) and node is not fn:
            inner = _local_bindings(node)
            for d in node.args.defaults + node.args.kw_defaults:
                if d is not None:
                    loads(d, bound)
            for st in node.body:
                loads(st, bound | inner)
            return
        if isinstance(node, ast.Lambda):
            inner = {x.arg for x in node.args.args + node.args.kwonlyargs + node.args.posonlyargs}
            if node.args.vararg:
                inner.add(node.args.vararg.arg)
            if node.args.kwarg:
                inner.add(node.args.kwarg.arg)
            loads(node.body, bound | inner)
            return
        if isinstance(node, (ast.ListComp, ast.SetComp, ast.GeneratorExp, ast.DictComp)):
            inner = set()
            for g in node.generators:
                for nd in ast.walk(g.target):
                    if isinstance(nd, ast.Name):
                        inner.add(nd.id)
            for ch in ast.iter_child_nodes(node):
                loads(ch, bound | inner)
            return
        if isinstance(node, ast.AnnAssign):
            # the annotation of a local variable is never evaluated
            if node.value is not None:
                loads(node.value, bound)
            loads(node.target, bound)
            return
        if isinstance(node, ast.arg):
            return
        if isinstance(node, ast.Name):
            if isinstance(node.ctx, ast.Load) and node.id not in bound and node.id not in glob and node.id not in bi:
                bad.append((node.id, node.lineno))
            return
        if isinstance(node, ast.Constant):
            return
        for ch in ast.iter_child_nodes(node):
            loads(ch, bound)

    for st in fn.body:
        loads(st, loc)
    if not future_ann:
        a = fn.args
        for x in a.posonlyargs + a.args + a.kwonlyargs + ([a.vararg] if a.vararg else []) + ([a.kwarg] if a.kwarg else []):
            if x.annotation is not None and not isinstance(x.annotation, ast.Constant):
                loads(x.annotation, loc)
        if fn.returns is not None and not isinstance(fn.returns, ast.Constant):
            loads(fn.returns, loc)
    # dedupe
    seen = set()
    res = []
    for nm, ln in bad:
        if (nm, ln) not in seen:
            seen.add((nm, ln))
            res.append((nm, ln))
    return res


def all_functions(tree: ast.Module):
    """yields (qualname, node, enclosing bindings)"""
    def rec(node, prefix, enclosing):
        for ch in ast.iter_child_nodes(node):
            if isinstance(ch, ast.ClassDef):
                yield from rec(ch, prefix + ch.name + ".", enclosing)
            elif isinstance(ch, (ast.FunctionDef, ast.AsyncFunctionDef)):
                yield prefix + ch.name, ch, enclosing
    yield from rec(tree, "", set())
