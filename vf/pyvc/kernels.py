"""Runs level-P kernel contracts (in parallel processes) and merges the results into a report."""
from __future__ import annotations

import concurrent.futures as cf
import os
import traceback
from typing import List

from vf import common
from vf.common import Report

LIST_ASSUMPTIONS = [
    "pyvc list-program semantics: Python ints unbounded; `in` / dict lookup on subsystem references decide by identity "
    "(precondition eq_is_identity of every generator: members are extracted subsystems; monitored at level B)",
    "rendering abstraction: chr(97+i) is the identity on labels under the proved side condition 0 <= i < 26; ''.join is the identity; "
    "cross-checked on every run by parsing the real output string back into label lists",
    "einsum generators: at most 26 labels (precondition); larger product spaces are outside the contract",
]


def _one_generator(name: str) -> Report:
    from contracts.proof import einsum
    from vf.pyvc import engine
    sub = Report("sub", "quick")
    try:
        engine.verify_generator(einsum.BY_NAME[name], sub)
    except Exception:
        sub.broken.append(f"pyvc crashed on {name}: " + traceback.format_exc(limit=4).strip().splitlines()[-1])
    return sub


def run_generators(rep: Report, names: List[str]) -> None:
    names = list(dict.fromkeys(names))
    import multiprocessing as mp
    with cf.ProcessPoolExecutor(max_workers=min(len(names), os.cpu_count() or 4), mp_context=mp.get_context("spawn")) as ex:
        for sub in ex.map(_one_generator, names):
            common.merge_reports(rep, sub)
    rep.assume(*LIST_ASSUMPTIONS)
    rep.trust("z3 4.x/5.1 (SMT solver)", "pyvc symbolic executor (own code; cross-checked against CPython on every run)",
              "jnp.einsum computes the contraction its label pattern denotes")


def run_scope(rep: Report, files: List[str]) -> None:
    """Definedness obligations (kind 8) for every function of the given repository files."""
    import ast
    from vf.common import Obligation
    from vf.pyvc import scope
    for rel in files:
        p = common.REPO / rel
        try:
            src = p.read_text()
            tree = ast.parse(src)
        except (OSError, SyntaxError) as ex:
            rep.undecided.append(f"{rel}: cannot parse ({ex})")
            continue
        for q, fn, enc in scope.all_functions(tree):
            bad = scope.undefined_names(tree, fn, enc)
            oid = f"{rel}::{q}::scope:names-defined-at-run-time"
            rep.add_ob(Obligation(oid, f"{rel}::{q}", "scope", "scope", "failed" if bad else "discharged",
                                  detail="; ".join(f"{n} (line {ln})" for n, ln in bad)))
            if bad:
                rep.violation(f"{rel}::{q} loads name(s) that do not exist at run time: " + ", ".join(f"{n} at line {ln}" for n, ln in bad)
                              + " (bound only under TYPE_CHECKING or not at all) -> NameError on that path",
                              key=f"P:{rel}::{q}:scope:" + ",".join(sorted({n for n, _ in bad})),
                              replay={"kind": "scope", "path": rel, "function": q, "names": [list(b) for b in bad],
                                      "failed_obligations": [oid]}, no_input=True)
    rep.assume("definedness: names are resolved statically (no exec/globals() tricks, no monkey patching of module globals at run time)")


def oracle_self_check(rep: Report) -> None:
    from vf.rtc import spec
    for e in spec.self_check():
        rep.broken.append("oracle self-check: " + e)


def run_delegation(rep, methods):
    """forwarding obligations (dataflow.delegation_sites) for the routed methods named in `methods`"""
    from . import dataflow as D
    from vf.common import Obligation
    files = ["photon_weave/state/base_state.py", "photon_weave/state/fock.py", "photon_weave/state/polarization.py", "photon_weave/state/custom_state.py",
             "photon_weave/state/envelope.py", "photon_weave/state/composite_envelope.py"]
    n = 0
    for rel in files:
        try:
            sites = D.delegation_sites(rel, tuple(methods))
        except Exception as ex:
            rep.undecided.append(f"{rel}: delegation analysis: {ex}")
            continue
        ordinal = {}
        for s in sites:
            k = ordinal.get(s["function"], 0)
            ordinal[s["function"]] = k + 1
            fq = f"{rel}::{s['function']}"
            oid = f"{fq}::delegation#{k}:request-forwarded-unchanged"
            n += 1
            st = "discharged" if s["ok"] else "failed"
            rep.add_ob(Obligation(oid, fq, "requires", "dataflow", st, detail=f"line {s['line']}: {s['call']}" + ("" if s["ok"] else " - " + s["why"])))
            if not s["ok"]:
                rep.violation(f"{fq} line {s['line']}: a routed request is not forwarded unchanged: {s['why']} (`{s['call']}`)", key=f"P:{oid}",
                              replay={"kind": "obligation", "function": fq, "failed_obligations": [oid], "solver_output": [s["why"], s["call"]]}, no_input=True)
    if n == 0:
        rep.broken.append(f"no delegating call found for {methods} (vacuous)")
