"""Runs level-P kernel contracts (in parallel processes) and merges the results into a report."""
from __future__ import annotations

import concurrent.futures as cf
import os
import traceback
from typing import List

from vf import common
from vf.common import Report

LIST_ASSUMPTIONS = [
    "pyvc list-program semantics: Python ints unbounded; `in` / dict lookup on subsystem references decide by identity "
    "(precondition eq_is_identity of every generator: members are extracted subsystems; monitored at level B)",
    "rendering abstraction: chr(97+i) is the identity on labels under the proved side condition 0 <= i < 26; ''.join is the identity; "
    "cross-checked on every run by parsing the real output string back into label lists",
    "einsum generators: at most 26 labels (precondition); larger product spaces are outside the contract",
]


def _one_generator(name: str) -> Report:
    from contracts.proof import einsum
    from vf.pyvc import engine
    sub = Report("sub", "quick")
    try:
        engine.verify_generator(einsum.BY_NAME[name], sub)
    except Exception:
        sub.broken.append(f"pyvc crashed on {name}: " + traceback.format_exc(limit=4).strip().splitlines()[-1])
    return sub


def run_generators(rep: Report, names: List[str]) -> None:
    names = list(dict.fromkeys(names))
    with cf.ProcessPoolExecutor(max_workers=min(len(names), os.cpu_count() or 4)) as ex:
        for sub in ex.map(_one_generator, names):
            common.merge_reports(rep, sub)
    rep.assume(*LIST_ASSUMPTIONS)
    rep.trust("z3 4.x/5.1 (SMT solver)", "pyvc symbolic executor (own code; cross-checked against CPython on every run)",
              "jnp.einsum computes the contraction its label pattern denotes")
