"""pyvc, part 4: verification of the own-state branch of Fock.resize (C10 kernel) for every dimension,
every requested size and every state.

The method's AST is executed path by path.  The state is an uninterpreted finite sequence (vector:
a(i), matrix: m(i, j)) of an opaque value sort with a distinguished ZERO; `jnp.pad(..., constant_values=0)`
and slicing are array transformers; `num_quanta_vector / num_quanta_matrix` are axiomatised by their contract
("highest index holding a non-zero entry", requires a non-zero entry - the well-formedness precondition).
Contract (taken from the statement of C10):
  result True  => dimensions' == new == len', common prefix equal, every dropped entry was ZERO, every added entry is ZERO
  result False => state and dimensions unchanged
Type `assert isinstance(...)` statements are preconditions (well_formed) and skipped; the delegating branches
(index is an int / a tuple) are checked to return the callee's result unchanged.
"""
from __future__ import annotations

import ast
from typing import Any, Dict, List, Optional, Tuple

import z3

from .listexec import Outside, VC

Val = z3.DeclareSort("Amp")
ZERO = z3.Const("ZERO", Val)
LABEL, VECTOR, MATRIX = 0, 1, 2


class ResizeExec:
    def __init__(self, fn: ast.FunctionDef):
        self.fn = fn
        self.me = fn.args.args[0].arg
        self.new_name = fn.args.args[1].arg
        self.n = z3.Int("new")
        self.level = z3.Int("level")
        self.d0 = z3.Int("dims0")
        self.label = z3.Int("label")
        self.idxkind = z3.Int("idxkind")        # 0 None, 1 int, 2 tuple
        self.len0 = z3.Int("len0")
        self.vec0 = z3.Function("a0", z3.IntSort(), Val)
        self.mat0 = z3.Function("m0", z3.IntSort(), z3.IntSort(), Val)
        self.vcs: List[VC] = []
        self.k = 0
        self.paths = 0
        self.delegations: List[str] = []

    def pre(self):
        i, j = z3.Ints("pi pj")
        return [
            z3.Or(self.level == LABEL, self.level == VECTOR, self.level == MATRIX),
            z3.Or(self.idxkind == 0, self.idxkind == 1, self.idxkind == 2),
            # well_formed: shape == dimension for arrays; label within range (dims may still be unset: -1)
            z3.Implies(self.level != LABEL, z3.And(self.d0 >= 1, self.len0 == self.d0)),
            z3.Implies(self.level == LABEL, z3.And(self.label >= 0, z3.Or(self.d0 == -1, z3.And(self.d0 >= 1, self.label < self.d0)))),
            # a valid state is not identically zero
            z3.Implies(self.level == VECTOR, z3.Exists([i], z3.And(0 <= i, i < self.len0, self.vec0(i) != ZERO))),
            z3.Implies(self.level == MATRIX, z3.Exists([i, j], z3.And(0 <= i, i < self.len0, 0 <= j, j < self.len0, self.mat0(i, j) != ZERO))),
        ]

    # ------------------------------------------------------------------ expressions
    def ev(self, e, st):
        if isinstance(e, ast.Constant):
            if isinstance(e.value, bool):
                return z3.BoolVal(e.value)
            if isinstance(e.value, int):
                return z3.IntVal(e.value)
            raise Outside(f"constant {e.value!r}")
        if isinstance(e, ast.Name):
            if e.id == self.new_name:
                return self.n
            if e.id in st["locals"]:
                return st["locals"][e.id]
            raise Outside(f"unbound {e.id}")
        if isinstance(e, ast.Attribute) and isinstance(e.value, ast.Name) and e.value.id == self.me:
            if e.attr == "dimensions":
                return st["dims"]
            if e.attr == "state":
                return ("state", st["arr"])
            raise Outside(f"self.{e.attr}")
        if isinstance(e, ast.BinOp) and isinstance(e.op, (ast.Add, ast.Sub)):
            a, b = self.ev(e.left, st), self.ev(e.right, st)
            if isinstance(a, tuple) and a[0] == "state" and a[1]["kind"] == "label":
                a = a[1]["label"]
            return a + b if isinstance(e.op, ast.Add) else a - b
        if isinstance(e, ast.Call):
            f = ast.unparse(e.func)
            if f == "max" and len(e.args) == 2:
                a, b = self.ev(e.args[0], st), self.ev(e.args[1], st)
                return z3.If(a >= b, a, b)
            if f in ("num_quanta_vector", "num_quanta_matrix"):
                v = self.ev(e.args[0], st)
                if not (isinstance(v, tuple) and v[0] == "state"):
                    raise Outside("num_quanta of a non-state")
                arr = v[1]
                q = z3.Int(f"nq{self.k}")
                self.k += 1
                i, j = z3.Ints(f"qi{self.k} qj{self.k}")
                if f.endswith("vector") and arr["kind"] == "vec":
                    st["facts"] += [0 <= q, q < arr["len"], arr["f"](q) != ZERO,
                                    z3.ForAll([i], z3.Implies(z3.And(q < i, i < arr["len"]), arr["f"](i) == ZERO))]
                elif f.endswith("matrix") and arr["kind"] == "mat":
                    st["facts"] += [0 <= q, q < arr["len"],
                                    z3.Exists([i], z3.And(0 <= i, i < arr["len"], z3.Or(arr["f"](q, i) != ZERO, arr["f"](i, q) != ZERO))),
                                    z3.ForAll([i, j], z3.Implies(z3.And(0 <= i, i < arr["len"], 0 <= j, j < arr["len"], z3.Or(i > q, j > q)),
                                                                 arr["f"](i, j) == ZERO))]
                else:
                    raise Outside(f"{f} applied to a {arr['kind']}")
                return q
            if f == "jnp.pad":
                v = self.ev(e.args[0], st)
                cfg = e.args[1]
                kw = {k.arg: k.value for k in e.keywords}
                if not (isinstance(v, tuple) and v[0] == "state") or "constant_values" not in kw or ast.unparse(kw["constant_values"]) != "0":
                    raise Outside("pad shape")
                arr = v[1]
                pads = [[self.ev(x, st) for x in t.elts] for t in cfg.elts]
                self.k += 1
                i, j = z3.Ints(f"xi{self.k} xj{self.k}")
                if arr["kind"] == "vec":
                    # ((0, p), (0, 0))
                    if not (len(pads) == 2 and z3.is_int_value(pads[0][0]) and pads[0][0].as_long() == 0 and all(z3.is_int_value(x) and x.as_long() == 0 for x in pads[1])):
                        raise Outside("pad configuration of a vector")
                    p = pads[0][1]
                    g = z3.Function(f"a{self.k}", z3.IntSort(), Val)
                    st["facts"] += [z3.ForAll([i], z3.Implies(z3.And(0 <= i, i < arr["len"]), g(i) == arr["f"](i))),
                                    z3.ForAll([i], z3.Implies(z3.And(arr["len"] <= i, i < arr["len"] + p), g(i) == ZERO))]
                    return ("state", {"kind": "vec", "len": arr["len"] + p, "f": g})
                if arr["kind"] == "mat":
                    if not (len(pads) == 2 and all(z3.is_int_value(t[0]) and t[0].as_long() == 0 for t in pads)):
                        raise Outside("pad configuration of a matrix")
                    p, p2 = pads[0][1], pads[1][1]
                    if not z3.eq(z3.simplify(p), z3.simplify(p2)):
                        raise Outside("matrix padded differently on rows and columns")
                    g = z3.Function(f"m{self.k}", z3.IntSort(), z3.IntSort(), Val)
                    L = arr["len"]
                    st["facts"] += [z3.ForAll([i, j], z3.Implies(z3.And(0 <= i, i < L, 0 <= j, j < L), g(i, j) == arr["f"](i, j))),
                                    z3.ForAll([i, j], z3.Implies(z3.And(0 <= i, i < L + p, 0 <= j, j < L + p, z3.Or(i >= L, j >= L)), g(i, j) == ZERO))]
                    return ("state", {"kind": "mat", "len": L + p, "f": g})
            raise Outside(f"call {f}")
        if isinstance(e, ast.Subscript):
            v = self.ev(e.value, st)
            if isinstance(v, tuple) and v[0] == "state":
                arr = v[1]
                sl = e.slice
                def upper(s):
                    if isinstance(s, ast.Slice) and s.lower is None and s.step is None and s.upper is not None:
                        return self.ev(s.upper, st)
                    raise Outside("slice shape")
                self.k += 1
                if arr["kind"] == "vec" and isinstance(sl, ast.Slice):
                    u = upper(sl)
                    newlen = z3.If(u < 0, z3.IntVal(-1), z3.If(u < arr["len"], u, arr["len"]))   # negative bounds are excluded by an obligation
                    self.vcs.append(VC(f"slice-bound-non-negative@{e.lineno}", "index", list(st["path"]) + list(st["facts"]), u >= 0, e.lineno))
                    return ("state", {"kind": "vec", "len": newlen, "f": arr["f"]})
                if arr["kind"] == "mat" and isinstance(sl, ast.Tuple) and len(sl.elts) == 2:
                    u1, u2 = upper(sl.elts[0]), upper(sl.elts[1])
                    if not z3.eq(z3.simplify(u1), z3.simplify(u2)):
                        raise Outside("matrix sliced differently on rows and columns")
                    self.vcs.append(VC(f"slice-bound-non-negative@{e.lineno}", "index", list(st["path"]) + list(st["facts"]), u1 >= 0, e.lineno))
                    newlen = z3.If(u1 < arr["len"], u1, arr["len"])
                    return ("state", {"kind": "mat", "len": newlen, "f": arr["f"]})
            raise Outside("subscript")
        raise Outside(f"{type(e).__name__} at line {getattr(e, 'lineno', '?')}")

    def cond(self, t, st):
        if isinstance(t, ast.Compare) and len(t.ops) == 1:
            op = t.ops[0]
            l, r = t.left, t.comparators[0]
            lt, rt = ast.unparse(l), ast.unparse(r)
            if isinstance(op, (ast.Is, ast.IsNot)):
                if lt == f"{self.me}.index" and rt == "None":
                    c = self.idxkind == 0
                elif lt == f"{self.me}.expansion_level" and rt.startswith("ExpansionLevel."):
                    c = self.level == {"Label": LABEL, "Vector": VECTOR, "Matrix": MATRIX}[rt.split(".")[1]]
                else:
                    raise Outside(f"identity test {lt} is {rt}")
                return z3.Not(c) if isinstance(op, ast.IsNot) else c
            a, b = self.ev(l, st), self.ev(r, st)
            if isinstance(a, tuple) and a[0] == "state" and a[1]["kind"] == "label":
                a = a[1]["label"]
            if isinstance(b, tuple) and b[0] == "state" and b[1]["kind"] == "label":
                b = b[1]["label"]
            table = {ast.Lt: lambda: a < b, ast.LtE: lambda: a <= b, ast.Gt: lambda: a > b, ast.GtE: lambda: a >= b, ast.Eq: lambda: a == b, ast.NotEq: lambda: a != b}
            if type(op) in table:
                return table[type(op)]()
        if isinstance(t, ast.BoolOp):
            vs = [self.cond(v, st) for v in t.values]
            return z3.And(*vs) if isinstance(t.op, ast.And) else z3.Or(*vs)
        if isinstance(t, ast.Call) and ast.unparse(t.func) == "isinstance" and ast.unparse(t.args[0]) == f"{self.me}.index":
            kind = ast.unparse(t.args[1])
            if kind == "int":
                return self.idxkind == 1
            if kind in ("tuple", "(tuple, list)", "(list, tuple)"):
                return self.idxkind == 2
        raise Outside(f"condition {ast.unparse(t)[:60]}")

    # ------------------------------------------------------------------ statements
    def run(self):
        arr0 = {"kind": "sym"}
        st = {"path": list(self.pre()), "facts": [], "dims": self.d0, "locals": {},
              "arr": {"kind": "sym", "len": self.len0}}
        self.block(self.fn.body, st)
        return self.vcs

    def state_for_level(self, st):
        """resolve the symbolic state by case split on the level (performed lazily by the branch conditions)"""
        return st

    def fork(self, st, extra):
        return {"path": st["path"] + extra, "facts": list(st["facts"]), "dims": st["dims"], "locals": dict(st["locals"]), "arr": dict(st["arr"])}

    def feasible(self, st) -> bool:
        chk = z3.Solver()
        chk.set("timeout", 3000)
        for h in st["path"]:
            chk.add(h)
        return chk.check() != z3.unsat

    def concretise(self, st):
        """The array kind follows from the level facts on the path; pick it when a statement needs it."""
        if st["arr"]["kind"] != "sym":
            return [st]
        outs = []
        for lv, arr in ((LABEL, {"kind": "label", "label": self.label, "len": z3.IntVal(0)}),
                        (VECTOR, {"kind": "vec", "len": self.len0, "f": self.vec0}),
                        (MATRIX, {"kind": "mat", "len": self.len0, "f": self.mat0})):
            s2 = self.fork(st, [self.level == lv])
            s2["arr"] = arr
            chk = z3.Solver()
            chk.set("timeout", 3000)
            for h in s2["path"]:
                chk.add(h)
            if chk.check() == z3.unsat:
                continue            # this level is excluded by the branch conditions on the path
            outs.append(s2)
        return outs

    def block(self, stmts, st):
        for k, s in enumerate(stmts):
            if isinstance(s, ast.Expr) and isinstance(s.value, ast.Constant):
                continue
            if isinstance(s, (ast.ImportFrom, ast.Import)):
                continue
            if isinstance(s, ast.Assert):
                continue            # type assertions: part of the well-formedness precondition
            if isinstance(s, ast.If):
                for s0 in self.concretise(st):
                    c = self.cond(s.test, s0)
                    s1 = self.fork(s0, [c])
                    f1 = self.block(s.body, s1) if self.feasible(s1) else []
                    s2 = self.fork(s0, [z3.Not(c)])
                    f2 = (self.block(s.orelse, s2) if s.orelse else [s2]) if self.feasible(s2) else []
                    for ft in f1 + f2:
                        self.block(stmts[k + 1:], ft)
                return []
            if isinstance(s, ast.Assign) and len(s.targets) == 1:
                t = s.targets[0]
                outs = []
                for s0 in self.concretise(st):
                    v = self.ev(s.value, s0)
                    if isinstance(t, ast.Name):
                        s0["locals"][t.id] = v
                    elif isinstance(t, ast.Attribute) and isinstance(t.value, ast.Name) and t.value.id == self.me and t.attr == "dimensions":
                        s0["dims"] = v
                    elif isinstance(t, ast.Attribute) and isinstance(t.value, ast.Name) and t.value.id == self.me and t.attr == "state":
                        if not (isinstance(v, tuple) and v[0] == "state"):
                            raise Outside("state assigned a non-state")
                        s0["arr"] = v[1]
                    else:
                        raise Outside(f"assignment to {ast.unparse(t)}")
                    outs.append(s0)
                res = []
                for s0 in outs:
                    res += self.block(stmts[k + 1:], s0)
                return res
            if isinstance(s, ast.Return):
                for s0 in self.concretise(st):
                    self.ret(s, s0)
                return []
            raise Outside(f"{type(s).__name__} at line {s.lineno}")
        return [st]

    def ret(self, s: ast.Return, st):
        self.paths += 1
        hyps = st["path"] + st["facts"]
        txt = ast.unparse(s.value)
        # delegating branches
        if isinstance(s.value, ast.Call):
            own = z3.Solver()
            own.set("timeout", 3000)
            for h in hyps:
                own.add(h)
            own.add(self.idxkind == 0)
            if own.check() != z3.unsat:
                raise Outside(f"call result returned on an own-state path: {txt[:50]}")
            self.delegations.append(txt)
            return
        if txt not in ("True", "False"):
            raise Outside(f"return of {txt[:40]}")
        name = f"@{s.lineno}"
        arr = st["arr"]
        own = [self.idxkind == 0]
        i, j = z3.Ints("ri rj")
        if txt == "False":
            same_dims = st["dims"] == self.d0
            if arr["kind"] == "vec":
                same = z3.And(arr["len"] == self.len0, z3.ForAll([i], z3.Implies(z3.And(0 <= i, i < self.len0), arr["f"](i) == self.vec0(i))))
            elif arr["kind"] == "mat":
                same = z3.And(arr["len"] == self.len0, z3.ForAll([i, j], z3.Implies(z3.And(0 <= i, i < self.len0, 0 <= j, j < self.len0), arr["f"](i, j) == self.mat0(i, j))))
            else:
                same = z3.BoolVal(True) if arr["kind"] == "label" else z3.BoolVal(True)
            self.vcs.append(VC(f"ensures:failure-leaves-state-and-dimension-untouched{name}", "ensures", hyps, z3.Implies(z3.And(*own), z3.And(same_dims, same)), s.lineno))
            return
        goals = [("success-sets-the-requested-dimension", st["dims"] == self.n)]
        if arr["kind"] == "label":
            goals.append(("label-stays-inside-the-new-space", z3.And(self.label >= 0, self.label < self.n)))
        elif arr["kind"] == "vec":
            m = z3.If(self.len0 < self.n, self.len0, self.n)
            goals += [("array-length-equals-the-new-dimension", arr["len"] == self.n),
                      ("common-prefix-is-kept", z3.ForAll([i], z3.Implies(z3.And(0 <= i, i < m), arr["f"](i) == self.vec0(i)))),
                      ("every-dropped-entry-was-zero", z3.ForAll([i], z3.Implies(z3.And(self.n <= i, i < self.len0), self.vec0(i) == ZERO))),
                      ("every-added-entry-is-zero", z3.ForAll([i], z3.Implies(z3.And(self.len0 <= i, i < self.n), arr["f"](i) == ZERO)))]
        else:
            m = z3.If(self.len0 < self.n, self.len0, self.n)
            goals += [("array-length-equals-the-new-dimension", arr["len"] == self.n),
                      ("common-block-is-kept", z3.ForAll([i, j], z3.Implies(z3.And(0 <= i, i < m, 0 <= j, j < m), arr["f"](i, j) == self.mat0(i, j)))),
                      ("every-dropped-entry-was-zero", z3.ForAll([i, j], z3.Implies(z3.And(0 <= i, i < self.len0, 0 <= j, j < self.len0, z3.Or(i >= self.n, j >= self.n)),
                                                                                   self.mat0(i, j) == ZERO))),
                      ("every-added-entry-is-zero", z3.ForAll([i, j], z3.Implies(z3.And(0 <= i, i < self.n, 0 <= j, j < self.n, z3.Or(i >= self.len0, j >= self.len0)),
                                                                                arr["f"](i, j) == ZERO)))]
        for nm, g in goals:
            self.vcs.append(VC(f"ensures:{nm}{name}", "ensures", hyps, z3.Implies(z3.And(*own), g), s.lineno))
