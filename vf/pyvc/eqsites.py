"""C18 site obligations: every place where subsystems are compared / looked up by `==` semantics
(`in`, `not in`, list.index, list.remove, `==`, `!=`, dict / set keyed by subsystems) in the anchored files.
Fock.__eq__ is VALUE equality when both operands hold their own state (contract of Fock.__eq__, checked
separately); for an extracted subsystem (state is None) and for Polarization / CustomState it coincides with identity.
A site is discharged iff its eq-based result provably equals the identity-based result:
  (i)  the container only holds extracted subsystems (product-state member lists and their local copies), or
  (ii) the comparison is by identity (`is`, any(x is y ...)), or
  (iii) at most one side can hold its own state.
Otherwise the obligation is refutable: counter-model = two distinct Fock objects holding equal labels."""
from __future__ import annotations

import ast
from typing import Any, Dict, List

from . import dataflow as D

# containers whose elements are extracted subsystems (state is None): member lists of product states and copies of them
EXTRACTED_SUFFIX = (".state_objs",)
EXTRACTED_NAMES = {"remaining_states", "new_order", "state_order", "ordered_states"}
# names that denote the member list of a COMPOSITE ENVELOPE CONTAINER (holds own-state subsystems too)
MIXED_OWNERS = {"self", "ce", "ce_container", "composite_envelope"}


def _container_kind(node: ast.AST, cls: str) -> str:
    t = ast.unparse(node)
    if isinstance(node, (ast.List, ast.Tuple)):
        return "literal"
    if t in EXTRACTED_NAMES:
        return "extracted"
    if t.endswith(".state_objs"):
        owner = t[: -len(".state_objs")]
        if cls == "ProductState" and owner == "self":
            return "extracted"
        if owner in ("ps", "p", "product_state", "product_states[0]", "new_ps"):
            return "extracted"
        return "mixed"       # CompositeEnvelope(.container).state_objs: every subsystem of the composite envelope
    return "unknown"


def sites(rel: str) -> List[Dict[str, Any]]:
    tree, src = D.parse(rel)
    out = []
    for q, fn in D.functions(tree):
        cls = q.split(".")[0] if "." in q else ""
        for nd in ast.walk(fn):
            rec = None
            if isinstance(nd, ast.Compare) and len(nd.ops) == 1 and isinstance(nd.ops[0], (ast.In, ast.NotIn)):
                cont = nd.comparators[0]
                k = _container_kind(cont, cls)
                if k != "unknown" or "state" in ast.unparse(cont) or "envelope" in ast.unparse(nd.left):
                    rec = {"op": "in", "expr": ast.unparse(nd), "container": ast.unparse(cont), "kind": k}
            elif isinstance(nd, ast.Call) and isinstance(nd.func, ast.Attribute) and nd.func.attr in ("index", "remove") and len(nd.args) == 1:
                k = _container_kind(nd.func.value, cls)
                if k != "unknown" or "state" in ast.unparse(nd.func.value):
                    rec = {"op": nd.func.attr, "expr": ast.unparse(nd), "container": ast.unparse(nd.func.value), "kind": k}
            elif isinstance(nd, ast.Compare) and len(nd.ops) == 1 and isinstance(nd.ops[0], (ast.Eq, ast.NotEq)):
                l, r = ast.unparse(nd.left), ast.unparse(nd.comparators[0])
                if any(x.endswith((".fock", ".polarization", ".envelope")) or x in ("s", "so", "state", "other_state") for x in (l, r)) \
                        and not any(isinstance(c, ast.Constant) for c in (nd.left, nd.comparators[0])):
                    rec = {"op": "eq", "expr": ast.unparse(nd), "container": "", "kind": "direct"}
            elif isinstance(nd, ast.Call) and isinstance(nd.func, ast.Name) and nd.func.id == "set" and nd.args and "state" in ast.unparse(nd.args[0]):
                rec = {"op": "set", "expr": ast.unparse(nd), "container": ast.unparse(nd.args[0]), "kind": "hash-eq"}
            if rec:
                rec.update({"file": rel, "function": q, "line": nd.lineno})
                out.append(rec)
    return out
