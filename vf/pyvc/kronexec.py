"""Level-P obligations for CompositeEnvelope.combine: the Kronecker-product accumulator and the member-order list grow in step.

Ghost view: the accumulated tensor `acc` ranges over a sequence of segments, the list `order` names a sequence of segments.
  jnp.kron(U, V)                 ranges over  seg(U) + seg(V)
  product_state.state            ranges over  product_state.state_objs            (representation invariant of ProductState)
  so.envelope.state              ranges over  the envelope's members in index order (representation invariant of Envelope)
  so.state                       ranges over  [so]
  order.extend(product_state.state_objs) / order.extend(<slot list filled by .index>) / order.append(so)   append that segment
Obligations: `acc == order` holds before each loop, is preserved by every path through each loop body (inductive invariant),
and the two variables handed to `ProductState(state=..., state_objs=...)` are this pair.  Decided structurally for every number of
product spaces / operands.  Anything outside the recognised statement forms that touches `acc` or `order` is Outside (exit 2)."""
from __future__ import annotations

import ast
import itertools
from typing import Any, Dict, List, Optional, Tuple

from .listexec import Outside

BLOCKS = {"product_state.state": "P", "so.envelope.state": "E", "so.state": "S"}
LISTS = {"product_state.state_objs": "P"}


class Mismatch(Exception):
    def __init__(self, kind, msg):
        super().__init__(msg)
        self.kind, self.msg = kind, msg


class KronExec:
    def __init__(self, fn: ast.FunctionDef):
        self.fn = fn
        self.acc_name: Optional[str] = None
        self.order_name: Optional[str] = None
        self.sites: List[str] = []
        self.obligations: List[Tuple[str, str, str, str]] = []     # (suffix, kind, status, detail)

    # ------------------------------------------------------------------------------------------------ helpers
    def locate(self):
        """the statement list of the function body from `X = jnp.array([[1]])` on"""
        body = self.fn.body
        for i, s in enumerate(body):
            if isinstance(s, ast.Assign) and len(s.targets) == 1 and isinstance(s.targets[0], ast.Name) and ast.unparse(s.value).replace(" ", "") == "jnp.array([[1]])":
                self.acc_name = s.targets[0].id
                return body[i + 1:]
        raise Outside("accumulator initialisation `X = jnp.array([[1]])` not found in combine")

    def seg_of_tensor(self, e, st) -> Tuple[str, ...]:
        src = ast.unparse(e)
        if isinstance(e, ast.Name) and e.id == self.acc_name:
            return st["acc"]
        if src in BLOCKS:
            return (BLOCKS[src],)
        raise Outside(f"line {e.lineno}: kron operand `{src}` has no ghost member list")

    def seg_of_list(self, e, st) -> Tuple[str, ...]:
        if isinstance(e, ast.Call) and ast.unparse(e.func) == "cast" and len(e.args) == 2:
            return self.seg_of_list(e.args[1], st)
        src = ast.unparse(e)
        if src in LISTS:
            return (LISTS[src],)
        if isinstance(e, ast.Name) and e.id in st["slots"]:
            filled = st["slots"][e.id]
            if set(filled) != {"fock", "polarization"}:
                raise Mismatch("callee-requires", f"line {e.lineno}: the slot list `{e.id}` has the slots {sorted(filled)} filled, expected fock and polarization")
            return ("E",)
        if isinstance(e, (ast.List, ast.Tuple)) and e.elts and all(ast.unparse(x) in ("so.envelope.fock", "so.envelope.polarization") for x in e.elts):
            # a literal order: equals the storage order of the envelope only for one of the two index assignments
            return ("E[" + ",".join(ast.unparse(x).split(".")[-1] for x in e.elts) + "]",)
        raise Outside(f"line {e.lineno}: list `{src}` has no ghost value")

    # ------------------------------------------------------------------------------------------------ execution
    def paths(self, stmts, st):
        """all paths through a statement list; yields (state, how) with how in fall / continue / return"""
        if not stmts:
            yield st, "fall"
            return
        s, rest = stmts[0], stmts[1:]
        for st2, how in self.step(s, st):
            if how == "fall":
                yield from self.paths(rest, st2)
            else:
                yield st2, how

    def copy(self, st):
        return {"acc": st["acc"], "order": st["order"], "slots": {k: dict(v) for k, v in st["slots"].items()}}

    def touches(self, s) -> bool:
        for nd in ast.walk(s):
            if isinstance(nd, ast.Name) and nd.id in (self.acc_name, self.order_name):
                return True
        return False

    def step(self, s, st):
        if isinstance(s, ast.Expr) and isinstance(s.value, ast.Constant):
            yield st, "fall"
            return
        if isinstance(s, ast.Continue):
            yield st, "continue"
            return
        if isinstance(s, ast.Return):
            yield st, "return"
            return
        if isinstance(s, (ast.Assert, ast.Pass)):
            yield st, "fall"
            return
        if isinstance(s, (ast.Assign, ast.AnnAssign)):
            tgt = s.targets[0] if isinstance(s, ast.Assign) else s.target
            val = s.value
            if isinstance(tgt, ast.Name) and val is not None:
                if isinstance(val, ast.List) and not val.elts and self.order_name is None and st["order"] is None:
                    self.order_name = tgt.id
                    st = self.copy(st)
                    st["order"] = ()
                    yield st, "fall"
                    return
                if isinstance(val, ast.Call) and ast.unparse(val.func) in ("jnp.kron", "np.kron") and len(val.args) == 2:
                    st = self.copy(st)
                    seg = self.seg_of_tensor(val.args[0], st) + self.seg_of_tensor(val.args[1], st)
                    if tgt.id != self.acc_name:
                        raise Outside(f"line {s.lineno}: Kronecker product stored in `{tgt.id}`")
                    st["acc"] = seg
                    self.sites.append(f"kron@{s.lineno}")
                    yield st, "fall"
                    return
                if isinstance(val, ast.List) and len(val.elts) == 2 and all(isinstance(x, ast.Constant) and x.value is None for x in val.elts):
                    st = self.copy(st)
                    st["slots"][tgt.id] = {}
                    yield st, "fall"
                    return
                if tgt.id in (self.acc_name, self.order_name):
                    raise Outside(f"line {s.lineno}: `{tgt.id}` is rebound by an unrecognised statement")
                yield st, "fall"
                return
            if isinstance(tgt, ast.Subscript) and isinstance(tgt.value, ast.Name) and tgt.value.id in st["slots"]:
                key, v = ast.unparse(tgt.slice), ast.unparse(val)
                who = None
                for m in ("fock", "polarization"):
                    if key == f"so.envelope.{m}.index":
                        who = m
                if who is None:
                    raise Outside(f"line {s.lineno}: slot key `{key}`")
                if v != f"so.envelope.{who}":
                    raise Mismatch("callee-requires", f"line {s.lineno}: the slot of the envelope's {who} receives `{v}`")
                st = self.copy(st)
                st["slots"][tgt.value.id][who] = True
                yield st, "fall"
                return
            if self.touches(tgt):
                raise Outside(f"line {s.lineno}: store through `{ast.unparse(tgt)}`")
            yield st, "fall"
            return
        if isinstance(s, ast.Expr) and isinstance(s.value, ast.Call):
            c = s.value
            if isinstance(c.func, ast.Attribute) and isinstance(c.func.value, ast.Name) and c.func.value.id == self.order_name:
                st = self.copy(st)
                if c.func.attr == "extend" and len(c.args) == 1:
                    st["order"] = st["order"] + self.seg_of_list(c.args[0], st)
                elif c.func.attr == "append" and len(c.args) == 1 and ast.unparse(c.args[0]) == "so":
                    st["order"] = st["order"] + ("S",)
                else:
                    raise Outside(f"line {s.lineno}: mutation of the order list by .{c.func.attr}({ast.unparse(c.args[0]) if c.args else ''})")
                self.sites.append(f"order@{s.lineno}")
                yield st, "fall"
                return
            if self.touches(s):
                if isinstance(c.func, ast.Name) or "ProductState" in ast.unparse(c.func):
                    yield st, "fall"
                    return
                raise Outside(f"line {s.lineno}: `{ast.unparse(c)[:60]}` uses the accumulator / order list")
            yield st, "fall"
            return
        if isinstance(s, ast.If):
            for branch in (s.body, s.orelse):
                yield from self.paths(branch, self.copy(st))
            return
        if isinstance(s, ast.For):
            if not any(self.touches(x) for x in s.body):
                yield st, "fall"
                return
            # inductive invariant acc == order
            ordinal = sum(1 for o in self.obligations if o[0].startswith("loop")) // 2
            ok0 = st["acc"] == st["order"]
            self.obligations.append((f"loop{ordinal}:inv-init", "inv-init", "discharged" if ok0 else "failed",
                                     "" if ok0 else f"before the loop at line {s.lineno} the accumulator ranges over {st['acc']}, the order list names {st['order']}"))
            head = {"acc": ("H",), "order": ("H",), "slots": {}}
            bad = []
            n = 0
            for st2, how in self.paths(s.body, head):
                n += 1
                if how == "return":
                    continue
                if st2["acc"] != st2["order"]:
                    bad.append(f"a path through the loop body at line {s.lineno} leaves the accumulator over {st2['acc']} and the order list as {st2['order']}")
            self.obligations.append((f"loop{ordinal}:inv-step", "inv-step", "discharged" if not bad else "failed", "; ".join(sorted(set(bad))[:3]) or f"{n} path(s)"))
            out = self.copy(st)
            out["acc"], out["order"] = ("H'",), ("H'",)
            yield out, "fall"
            return
        if isinstance(s, ast.While):
            if self.touches(s):
                raise Outside(f"line {s.lineno}: while loop over the accumulator")
            yield st, "fall"
            return
        if self.touches(s):
            raise Outside(f"line {s.lineno}: statement {type(s).__name__} uses the accumulator / order list")
        yield st, "fall"

    def run(self):
        stmts = self.locate()
        st = {"acc": (), "order": None, "slots": {}}
        finals = list(self.paths(stmts, st))
        # the constructor call
        ctor = None
        for nd in ast.walk(self.fn):
            if isinstance(nd, ast.Call) and ast.unparse(nd.func) == "ProductState":
                ctor = nd
        if ctor is None:
            raise Outside("no ProductState(...) construction in combine")
        kw = {k.arg: ast.unparse(k.value) for k in ctor.keywords}
        ok = kw.get("state") == self.acc_name and kw.get("state_objs") == self.order_name
        self.obligations.append(("constructor:state-and-member-list-are-the-pair", "ensures", "discharged" if ok else "failed",
                                 "" if ok else f"ProductState(state={kw.get('state')}, state_objs={kw.get('state_objs')}); the accumulated pair is ({self.acc_name}, {self.order_name})"))
        okf = all(f[0]["acc"] == f[0]["order"] for f in finals if f[1] != "return")
        self.obligations.append(("exit:accumulator-ranges-over-the-order-list", "rep-invariant", "discharged" if okf else "failed", "" if okf else "acc != order at the end of combine"))
        nk = sum(1 for x in self.sites if x.startswith("kron"))
        self.obligations.append(("cover", "cover", "discharged" if nk >= 3 else "failed", f"{nk} Kronecker site(s) and {len(self.sites) - nk} order-list site(s) analysed"))
        return self.obligations


def run_combine(rep):
    from vf.common import Obligation
    from . import dataflow as D
    rel, q = "photon_weave/state/composite_envelope.py", "CompositeEnvelope.combine"
    fq = f"{rel}::{q}"
    try:
        tree, src = D.parse(rel)
        fn = dict(D.functions(tree))[q]
    except Exception as ex:
        rep.undecided.append(f"{fq}: {ex}")
        return
    rep.add_function(fq, rel, ast.get_source_segment(src, fn) or "", "P (Kronecker accumulator / member order pairing)")
    try:
        obs = KronExec(fn).run()
    except Mismatch as m:
        obs = [(m.kind, m.kind, "failed", m.msg)]
    except Outside as o:
        obs = [("subset", "requires", "unknown", f"outside the supported subset: {o}")]
    for suffix, kind, status, detail in obs:
        oid = f"{fq}::kron:{suffix}"
        if status == "unknown":
            rep.not_covered(fq, ast.get_source_segment(src, fn) or "", f"combine pairing: {detail}")
            continue
        rep.add_ob(Obligation(oid, fq, kind, "pyvc", status, 0.0, detail))
        if status == "failed":
            rep.violation(f"{fq} breaks the accumulator / member-order pairing ({suffix}): {detail}", key=f"P:{oid}",
                          replay={"kind": "obligation", "function": fq, "failed_obligations": [oid], "solver_output": [detail]}, no_input=True)
        elif status == "unknown":
            rep.undecided.append(f"{oid}: {detail}")
    rep.assume("combine: a product space's tensor ranges over its state_objs, an envelope's over its members in index order, an own state over itself "
               "(the representation invariants checked by C07 / C13 and re-established by the tensor contracts)")


def run_envelope_combine(rep):
    """Envelope.combine: `self.state = kron(self.<a>.state, self.<b>.state)` is followed, in the same block, by `self.<a>.extract(0)` and
    `self.<b>.extract(1)` - the member indices name the positions the Kronecker product gave the members."""
    from vf.common import Obligation
    from . import dataflow as D
    rel, q = "photon_weave/state/envelope.py", "Envelope.combine"
    fq = f"{rel}::{q}"
    try:
        tree, src = D.parse(rel)
        fn = dict(D.functions(tree))[q]
    except Exception as ex:
        rep.undecided.append(f"{fq}: {ex}")
        return
    rep.add_function(fq, rel, ast.get_source_segment(src, fn) or "", "P (Kronecker operand order / member index pairing)")
    me = fn.args.args[0].arg
    sites = []
    for block in D._blocks(fn):
        for i, s in enumerate(block):
            if isinstance(s, ast.Assign) and len(s.targets) == 1 and ast.unparse(s.targets[0]) == f"{me}.state" and isinstance(s.value, ast.Call) \
                    and ast.unparse(s.value.func) in ("jnp.kron", "np.kron") and len(s.value.args) == 2:
                ops = [ast.unparse(a) for a in s.value.args]
                mem = []
                for o in ops:
                    parts = o.split(".")
                    mem.append(parts[1] if len(parts) == 3 and parts[0] == me and parts[2] == "state" else None)
                ext = {}
                for t in block[i + 1:]:
                    if isinstance(t, ast.Expr) and isinstance(t.value, ast.Call) and isinstance(t.value.func, ast.Attribute) and t.value.func.attr == "extract" \
                            and len(t.value.args) == 1 and isinstance(t.value.args[0], ast.Constant):
                        recv = ast.unparse(t.value.func.value).split(".")
                        if len(recv) == 2 and recv[0] == me:
                            ext[recv[1]] = t.value.args[0].value
                ok = None not in mem and set(mem) == {"fock", "polarization"} and ext.get(mem[0]) == 0 and ext.get(mem[1]) == 1
                sites.append((s.lineno, ok, f"kron({ops[0]}, {ops[1]}) with extract indices {ext}"))
    if not sites:
        rep.not_covered(fq, ast.get_source_segment(src, fn) or "", "no `self.state = kron(...)` site found")
        return
    for k, (line, ok, detail) in enumerate(sites):
        oid = f"{fq}::kron#{k}:member-indices-name-the-kronecker-positions"
        rep.add_ob(Obligation(oid, fq, "ensures", "pyvc", "discharged" if ok else "failed", 0.0, f"line {line}: {detail}"))
        if not ok:
            rep.violation(f"{fq} line {line}: the member indices do not name the positions of the Kronecker factors: {detail}", key=f"P:{oid}",
                          replay={"kind": "obligation", "function": fq, "failed_obligations": [oid], "solver_output": [detail]}, no_input=True)
