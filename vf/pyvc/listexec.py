"""pyvc, part 1: symbolic executor for *list programs* (pure functions over ints, lists of ints /
object references, dicts keyed by object, itertools counters) — the subset the einsum-string
generators of photon_weave/extra/einsum_constructor.py are written in.

The function's AST is read from $VERIF_REPO on every run and executed as is (DESIGN 3.1).  Dropped /
abstracted, exactly: annotations, docstrings, and the rendering of integer label lists into letters
(`chr(97 + i)` is the identity on labels under the generated side condition 0 <= i < 26; `"".join`
is the identity on lists of letters; the final f-string is the tuple of its formatted values, its
literal parts must be "," and "->").

Assumed Python semantics (stated in evidence): ints unbounded; `x in L` / dict lookup on object
references decided by identity (precondition `eq_is_identity` of every generator: members are
extracted subsystems, for which BaseState.__eq__/Fock.__eq__ coincide with `is`); list identity is
not modelled: a list local must not be aliased (checked syntactically: a list-valued name is never
assigned to another name, stored in a container or passed to a call other than the handled ones).
"""
from __future__ import annotations

import ast
import copy
from dataclasses import dataclass
from typing import Any, Callable, Dict, List, Optional, Tuple

import z3

from .sym import PyList, SCounter, SDict, SList, fresh_int, fresh_name


class Outside(Exception):
    """AST node outside the supported subset (reported; never silently skipped)."""


@dataclass
class VC:
    name: str
    kind: str
    hyps: list
    goal: Any
    lineno: int = 0


class Roles:
    """Rename-robust access to the locals of a generator: LL = the list-of-lists local, D = the dict
    local, C = the counter local, X(j) = j-th int local assigned at function top level."""

    def __init__(self, env: Dict[str, Any], scalars: List[str]):
        self.env, self.scalars = env, scalars

    def _unique(self, typ, what):
        xs = [v for v in self.env.values() if isinstance(v, typ)]
        if len(xs) != 1:
            raise StaleContract(f"expected exactly one {what} local, found {len(xs)}")
        return xs[0]

    def LL(self, t: int) -> SList:
        ll = [v for v in self.env.values() if isinstance(v, PyList) and all(isinstance(x, SList) for x in v.items)]
        if len(ll) != 1:
            raise StaleContract(f"expected exactly one list-of-lists local, found {len(ll)}")
        if t >= len(ll[0].items):
            raise StaleContract("list-of-lists local has fewer entries than the contract expects")
        return ll[0].items[t]

    @property
    def D(self) -> SDict:
        return self._unique(SDict, "dict")

    @property
    def C(self):
        return self._unique(SCounter, "counter").v

    def X(self, j: int):
        live = [n for n in self.scalars if n in self.env and z3.is_expr(self.env[n])]
        if j >= len(live):
            raise StaleContract(f"scalar local #{j} not found")
        return self.env[live[j]]


class StaleContract(Exception):
    pass


class ListExec:
    def __init__(self, fn: ast.FunctionDef, params: Dict[str, Any], pre: list,
                 invariants: Dict[int, Callable], unroll: bool = False):
        self.fn = fn
        self.env: Dict[str, Any] = dict(params)
        self.param_names = set(params)
        self.path: list = list(pre)
        self.invs = invariants
        self.vcs: List[VC] = []
        self.loop_no = 0
        self.ret = None
        self.unroll = unroll
        self.scalars = self._toplevel_scalars()
        self.check_no_alias()

    # ------------------------------------------------------------------ static side conditions
    def _toplevel_scalars(self) -> List[str]:
        out = []
        for st in self.fn.body:
            if isinstance(st, (ast.Assign, ast.AnnAssign)):
                t = st.targets[0] if isinstance(st, ast.Assign) else st.target
                if isinstance(t, ast.Name) and t.id not in out:
                    out.append(t.id)
        return out

    def check_no_alias(self) -> None:
        """Frame + no-alias side condition (syntactic): parameters are never the receiver of a mutating
        call or the base of a subscript store, never rebound, never stored."""
        mut = ("append", "extend", "remove", "insert", "pop", "clear", "sort", "reverse", "__setitem__")
        for nd in ast.walk(self.fn):
            if isinstance(nd, ast.Call) and isinstance(nd.func, ast.Attribute) and nd.func.attr in mut:
                b = nd.func.value
                while isinstance(b, ast.Subscript):
                    b = b.value
                if isinstance(b, ast.Name) and b.id in self.param_names:
                    raise FrameViolation(f"parameter {b.id} mutated by .{nd.func.attr}() at line {nd.lineno}")
            if isinstance(nd, (ast.Assign, ast.AugAssign, ast.AnnAssign)):
                tg = nd.targets if isinstance(nd, ast.Assign) else [nd.target]
                for t in tg:
                    b = t
                    sub = False
                    while isinstance(b, ast.Subscript):
                        b, sub = b.value, True
                    if isinstance(b, ast.Name) and b.id in self.param_names:
                        raise FrameViolation(f"parameter {b.id} {'stored into' if sub else 'rebound'} at line {nd.lineno}")
            if isinstance(nd, ast.Delete):
                raise Outside("del statement")

    # ------------------------------------------------------------------ expressions
    def ob(self, name, kind, goal, lineno=0):
        self.vcs.append(VC(name, kind, list(self.path), goal, lineno))

    def ev(self, e):
        if isinstance(e, ast.Constant):
            if isinstance(e.value, bool):
                return z3.BoolVal(e.value)
            if isinstance(e.value, int):
                return z3.IntVal(e.value)
            return e.value
        if isinstance(e, ast.Name):
            if e.id not in self.env:
                raise Outside(f"unbound name {e.id} at line {e.lineno}")
            return self.env[e.id]
        if isinstance(e, ast.UnaryOp) and isinstance(e.op, ast.USub):
            return -self.ev(e.operand)
        if isinstance(e, ast.BinOp):
            a, b = self.ev(e.left), self.ev(e.right)
            if isinstance(e.op, ast.Add):
                return a + b
            if isinstance(e.op, ast.Sub):
                return a - b
            if isinstance(e.op, ast.Mult):
                return a * b
            raise Outside(f"binary operator {type(e.op).__name__} at line {e.lineno}")
        if isinstance(e, ast.List):
            if not e.elts:
                return SList.empty()
            return PyList([self.ev(x) for x in e.elts])
        if isinstance(e, ast.Subscript):
            base = self.ev(e.value)
            idx = self.ev(e.slice)
            if isinstance(base, PyList):
                i = self.const_int(idx, e)
                if not 0 <= i < len(base.items):
                    raise Outside(f"static subscript out of range at line {e.lineno}")
                return base.items[i]
            if isinstance(base, SDict):
                self.ob(f"key-present@{e.lineno}", "index", base.has(idx), e.lineno)
                return base.get(idx)
            if isinstance(base, SList):
                self.ob(f"index-in-range@{e.lineno}", "index", z3.And(0 <= idx, idx < base.len), e.lineno)
                return base.at(idx)
            raise Outside(f"subscript of {type(base).__name__} at line {e.lineno}")
        if isinstance(e, ast.Call):
            return self.call(e)
        if isinstance(e, ast.ListComp):
            return self.listcomp(e)
        if isinstance(e, ast.DictComp):
            return self.dictcomp(e)
        if isinstance(e, ast.JoinedStr):
            out = []
            for v in e.values:
                if isinstance(v, ast.FormattedValue):
                    out.append(self.ev(v.value))
                elif isinstance(v, ast.Constant) and v.value in (",", "->"):
                    out.append(v.value)
                else:
                    raise Outside(f"f-string literal part {ast.dump(v)[:60]}")
            return ("fstring", out)
        if isinstance(e, ast.Compare):
            return self.cond(e)
        raise Outside(f"{type(e).__name__} at line {getattr(e, 'lineno', '?')}")

    def const_int(self, v, node) -> int:
        v = z3.simplify(v) if z3.is_expr(v) else v
        if z3.is_int_value(v):
            return v.as_long()
        raise Outside(f"non-constant index into a static list at line {node.lineno}")

    def call(self, e: ast.Call):
        f = e.func
        if isinstance(f, ast.Name) and f.id == "next" and len(e.args) == 1 and isinstance(e.args[0], ast.Name):
            c = self.env.get(e.args[0].id)
            if not isinstance(c, SCounter):
                raise Outside("next() of a non-counter")
            self.env[e.args[0].id] = SCounter(c.v + 1)
            return c.v
        if isinstance(f, ast.Attribute) and f.attr == "count" and isinstance(f.value, ast.Name) and f.value.id == "itertools":
            start = 0
            for kw in e.keywords:
                if kw.arg == "start":
                    start = self.ev(kw.value)
                else:
                    raise Outside("itertools.count(step=...)")
            if e.args:
                start = self.ev(e.args[0])
            return SCounter(start if z3.is_expr(start) else z3.IntVal(start))
        if isinstance(f, ast.Name) and f.id == "chr" and len(e.args) == 1:
            # rendering: chr(97 + i) == label i, side condition 0 <= i < 26
            a = e.args[0]
            if isinstance(a, ast.BinOp) and isinstance(a.op, ast.Add):
                l, r = a.left, a.right
                if isinstance(r, ast.Constant) and r.value == 97:
                    l, r = r, l
                if isinstance(l, ast.Constant) and l.value == 97:
                    v = self.ev(r)
                    self.ob(f"label-is-a-letter@{e.lineno}", "index", z3.And(0 <= v, v < 26), e.lineno)
                    return v
            raise Outside("chr() of something other than 97 + label")
        if isinstance(f, ast.Attribute) and f.attr == "join" and isinstance(f.value, ast.Constant) and f.value.value == "":
            v = self.ev(e.args[0])
            if isinstance(v, (SList,)):
                return v
            raise Outside("''.join of a non-list")
        if isinstance(f, ast.Name) and f.id == "len" and len(e.args) == 1:
            v = self.ev(e.args[0])
            if isinstance(v, SList):
                return v.len
            if isinstance(v, PyList):
                return z3.IntVal(len(v.items))
        if isinstance(f, ast.Name) and f.id == "list" and len(e.args) == 1:
            v = self.ev(e.args[0])
            if isinstance(v, SList):
                return v  # a copy; lists are values here
        raise Outside(f"call {ast.unparse(e)[:60]} at line {e.lineno}")

    def listcomp(self, e: ast.ListComp):
        if len(e.generators) != 1 or e.generators[0].ifs or not isinstance(e.generators[0].target, ast.Name):
            raise Outside("comprehension with filters / several generators")
        g = e.generators[0]
        src = self.ev(g.iter)
        tname = g.target.id
        saved = self.env.get(tname, None)
        try:
            if isinstance(src, PyList):
                out = []
                for it in src.items:
                    self.env[tname] = it
                    out.append(self.ev(e.elt))
                return PyList(out)
            if isinstance(src, SList):
                if self.unroll:
                    n = self.const_int(src.len, e)
                    res = SList.empty()
                    for i in range(n):
                        self.env[tname] = z3.simplify(src.at(i))
                        res = res.append(self.ev(e.elt))
                    return res
                # map over a symbolic list: R.len == src.len and R[a] == elt(src[a])
                a = fresh_int("m")
                self.env[tname] = src.at(a)
                saved_path = list(self.path)
                self.path = saved_path + [0 <= a, a < src.len]
                nv = len(self.vcs)
                val = self.ev(e.elt)
                # obligations raised while evaluating the element are universally quantified over a
                for vc in self.vcs[nv:]:
                    vc.goal = z3.ForAll([a], z3.Implies(z3.And(0 <= a, a < src.len), vc.goal))
                    vc.hyps = list(saved_path)
                self.path = saved_path
                if not z3.is_expr(val):
                    raise Outside("comprehension element is not a scalar")
                R = SList.fresh("comp")
                self.path.append(R.len == src.len)
                self.path.append(z3.ForAll([a], z3.Implies(z3.And(0 <= a, a < src.len), R.at(a) == val)))
                return R
            raise Outside("comprehension over " + type(src).__name__)
        finally:
            if saved is None:
                self.env.pop(tname, None)
            else:
                self.env[tname] = saved

    def dictcomp(self, e: ast.DictComp):
        if len(e.generators) != 1 or e.generators[0].ifs:
            raise Outside("dict comprehension shape")
        g = e.generators[0]
        if not (isinstance(g.target, ast.Name) and isinstance(e.key, ast.Name) and e.key.id == g.target.id):
            raise Outside("dict comprehension key is not the loop variable")
        src = self.ev(g.iter)
        if not isinstance(src, SList):
            raise Outside("dict comprehension over a non-list")
        k = fresh_int("dk")
        if isinstance(e.value, ast.List) and not e.value.elts:
            d = SDict.fresh("list", "d")
            if self.unroll:
                n = self.const_int(src.len, e)
                dom = z3.K(z3.IntSort(), z3.BoolVal(False))
                for i in range(n):
                    dom = z3.Store(dom, z3.simplify(src.at(i)), True)
                d = SDict("list", dom, z3.K(z3.IntSort(), z3.IntVal(0)), d.vals)
                return d
            self.path.append(z3.ForAll([k], d.lens[k] == 0))
        else:
            v = self.ev(e.value)
            if not z3.is_expr(v):
                raise Outside("dict comprehension value")
            d = SDict.fresh("int", "d")
            if self.unroll:
                n = self.const_int(src.len, e)
                dom = z3.K(z3.IntSort(), z3.BoolVal(False))
                for i in range(n):
                    dom = z3.Store(dom, z3.simplify(src.at(i)), True)
                return SDict("int", dom, None, z3.K(z3.IntSort(), v))
            self.path.append(z3.ForAll([k], d.vals[k] == v))
        j = fresh_int("dj")
        self.path.append(z3.ForAll([k], d.dom[k] == z3.Exists([j], z3.And(0 <= j, j < src.len, src.at(j) == k))))
        # convenient instance: every element of src is a key
        self.path.append(z3.ForAll([j], z3.Implies(z3.And(0 <= j, j < src.len), d.dom[src.at(j)])))
        return d

    def membership(self, x, lst: SList):
        if self.unroll:
            n = self.const_int(lst.len, self.fn)
            return z3.Or(*[lst.at(i) == x for i in range(n)]) if n else z3.BoolVal(False)
        j = fresh_int("j")
        return z3.Exists([j], z3.And(0 <= j, j < lst.len, lst.at(j) == x))

    def cond(self, t):
        if isinstance(t, ast.Compare) and len(t.ops) == 1:
            op = t.ops[0]
            l = self.ev(t.left)
            r = self.ev(t.comparators[0])
            if isinstance(op, (ast.In, ast.NotIn)):
                if not isinstance(r, SList):
                    raise Outside("membership in a non-list")
                m = self.membership(l, r)
                return z3.Not(m) if isinstance(op, ast.NotIn) else m
            table = {ast.Eq: lambda a, b: a == b, ast.NotEq: lambda a, b: a != b, ast.Lt: lambda a, b: a < b,
                     ast.LtE: lambda a, b: a <= b, ast.Gt: lambda a, b: a > b, ast.GtE: lambda a, b: a >= b,
                     ast.Is: lambda a, b: a == b, ast.IsNot: lambda a, b: a != b}
            if type(op) in table and z3.is_expr(l) and z3.is_expr(r):
                return table[type(op)](l, r)
        if isinstance(t, ast.BoolOp):
            vs = [self.cond(v) for v in t.values]
            return z3.And(*vs) if isinstance(t.op, ast.And) else z3.Or(*vs)
        if isinstance(t, ast.UnaryOp) and isinstance(t.op, ast.Not):
            return z3.Not(self.cond(t.operand))
        raise Outside(f"condition {ast.unparse(t)[:60]}")

    # ------------------------------------------------------------------ statements
    def do_append(self, target, v, lineno):
        if not z3.is_expr(v):
            raise Outside(f"append of a non-scalar at line {lineno}")
        if isinstance(target, ast.Name):
            cur = self.env.get(target.id)
            if not isinstance(cur, SList):
                raise Outside("append to a non-list")
            self.env[target.id] = cur.append(v)
            return
        if isinstance(target, ast.Subscript) and isinstance(target.value, ast.Name):
            base = self.env.get(target.value.id)
            idx = self.ev(target.slice)
            if isinstance(base, PyList):
                i = self.const_int(idx, target)
                if not isinstance(base.items[i], SList):
                    raise Outside("append to a non-list entry")
                base.items[i] = base.items[i].append(v)
                return
            if isinstance(base, SDict) and base.kind == "list":
                self.ob(f"key-present@{lineno}", "index", base.has(idx), lineno)
                self.env[target.value.id] = base.set(idx, base.get(idx).append(v))
                return
        raise Outside(f"append target at line {lineno}")

    def block(self, stmts):
        for s in stmts:
            if self.ret is not None:
                raise Outside("statement after return")
            self.stmt(s)

    def stmt(self, s):
        if isinstance(s, ast.Expr) and isinstance(s.value, ast.Constant):
            return
        if isinstance(s, (ast.Assign, ast.AnnAssign)):
            if isinstance(s, ast.Assign) and len(s.targets) != 1:
                raise Outside("chained assignment")
            tgt = s.targets[0] if isinstance(s, ast.Assign) else s.target
            if s.value is None:
                return
            if isinstance(s.value, ast.Name) and isinstance(self.env.get(s.value.id), (SList, PyList, SDict, SCounter)):
                raise Outside(f"aliasing of a mutable local at line {s.lineno}")
            val = self.ev(s.value)
            if isinstance(tgt, ast.Name):
                self.env[tgt.id] = val
                return
            if isinstance(tgt, ast.Subscript) and isinstance(tgt.value, ast.Name):
                base = self.env.get(tgt.value.id)
                idx = self.ev(tgt.slice)
                if isinstance(base, PyList):
                    base.items[self.const_int(idx, tgt)] = val
                    return
                if isinstance(base, SDict) and base.kind == "int" and z3.is_expr(val):
                    self.env[tgt.value.id] = base.set(idx, val)
                    return
            raise Outside(f"assignment target at line {s.lineno}")
        if isinstance(s, ast.Expr) and isinstance(s.value, ast.Call) and isinstance(s.value.func, ast.Attribute) \
                and s.value.func.attr == "append" and len(s.value.args) == 1:
            self.do_append(s.value.func.value, self.ev(s.value.args[0]), s.lineno)
            return
        if isinstance(s, ast.If):
            c = self.cond(s.test)
            saved = self.snapshot()
            p = list(self.path)
            self.path = p + [c]
            self.block(s.body)
            st_then, path_then = self.snapshot(), self.path[len(p) + 1:]
            self.restore(saved)
            self.path = p + [z3.Not(c)]
            self.block(s.orelse)
            st_else, path_else = self.snapshot(), self.path[len(p) + 1:]
            # facts added inside a branch stay guarded by the branch condition
            self.path = p + [z3.Implies(c, f) for f in path_then] + [z3.Implies(z3.Not(c), f) for f in path_else]
            self.merge(c, st_then, st_else)
            return
        if isinstance(s, ast.For):
            return self.loop(s)
        if isinstance(s, ast.Return):
            self.ret = self.ev(s.value)
            return
        if isinstance(s, ast.Pass):
            return
        raise Outside(f"{type(s).__name__} at line {s.lineno}")

    def snapshot(self):
        return {k: (v.copy() if isinstance(v, PyList) else v) for k, v in self.env.items()}

    def restore(self, snap):
        self.env = {k: (v.copy() if isinstance(v, PyList) else v) for k, v in snap.items()}

    def ite(self, c, a, b):
        if a is b:
            return a
        if isinstance(a, SList) and isinstance(b, SList):
            return SList(z3.If(c, a.len, b.len), z3.If(c, a.arr, b.arr))
        if isinstance(a, SCounter) and isinstance(b, SCounter):
            return SCounter(z3.If(c, a.v, b.v))
        if isinstance(a, SDict) and isinstance(b, SDict) and a.kind == b.kind:
            return SDict(a.kind, z3.If(c, a.dom, b.dom),
                         z3.If(c, a.lens, b.lens) if a.kind == "list" else None, z3.If(c, a.vals, b.vals))
        if isinstance(a, PyList) and isinstance(b, PyList) and len(a.items) == len(b.items):
            return PyList([self.ite(c, x, y) for x, y in zip(a.items, b.items)])
        if z3.is_expr(a) and z3.is_expr(b):
            return z3.If(c, a, b)
        if a == b:
            return a
        raise Outside("branches leave a local with different shapes")

    def merge(self, c, A, B):
        self.env = {k: self.ite(c, A[k], B[k]) for k in A if k in B}

    def havoc(self, v, name):
        if isinstance(v, SList):
            return SList.fresh(name)
        if isinstance(v, SCounter):
            return SCounter(fresh_int(name))
        if isinstance(v, SDict):
            return SDict.fresh(v.kind, name)
        if isinstance(v, PyList):
            return PyList([self.havoc(x, f"{name}{i}") for i, x in enumerate(v.items)])
        if z3.is_expr(v):
            return z3.FreshConst(v.sort(), name)
        return v

    def modified(self, stmts):
        """Syntactically modified locals.  Returns {name: None | set of constant indices}: for a static
        list-of-lists only the entries that are appended to are havocked."""
        out: Dict[str, Any] = {}

        def mark(t):
            idx = "whole"
            if isinstance(t, ast.Subscript) and isinstance(t.value, ast.Name) and isinstance(t.slice, ast.Constant) \
                    and isinstance(t.slice.value, int) and isinstance(self.env.get(t.value.id), PyList):
                idx = t.slice.value
                t = t.value
            while isinstance(t, ast.Subscript):
                t = t.value
            if isinstance(t, ast.Name):
                if idx == "whole":
                    out[t.id] = None
                elif out.get(t.id, set()) is not None:
                    out.setdefault(t.id, set()).add(idx)

        for st in stmts:
            for nd in ast.walk(st):
                if isinstance(nd, (ast.Assign, ast.AnnAssign, ast.AugAssign)):
                    for t in (nd.targets if isinstance(nd, ast.Assign) else [nd.target]):
                        mark(t)
                if isinstance(nd, ast.Call) and isinstance(nd.func, ast.Attribute) and nd.func.attr in ("append", "extend", "remove"):
                    mark(nd.func.value)
                if isinstance(nd, ast.Call) and getattr(nd.func, "id", "") == "next" and nd.args and isinstance(nd.args[0], ast.Name):
                    out[nd.args[0].id] = None
                if isinstance(nd, ast.For) and isinstance(nd.target, ast.Name):
                    out[nd.target.id] = None
        return out

    def havoc_env(self, env, mod):
        new = {}
        for k, v in env.items():
            if k not in mod:
                new[k] = v.copy() if isinstance(v, PyList) else v
            elif mod[k] is None or not isinstance(v, PyList):
                new[k] = self.havoc(v, k)
            else:
                new[k] = PyList([self.havoc(x, f"{k}{i}") if i in mod[k] else x for i, x in enumerate(v.items)])
        return new

    def roles(self) -> Roles:
        return Roles(self.env, self.scalars)

    def loop(self, s: ast.For):
        if s.orelse:
            raise Outside("for-else")
        if not isinstance(s.target, ast.Name):
            raise Outside("tuple loop target")
        it = s.iter
        if isinstance(it, ast.Call) and getattr(it.func, "id", "") == "range" and len(it.args) == 1 \
                and isinstance(it.args[0], ast.Constant) and isinstance(it.args[0].value, int):
            for i in range(it.args[0].value):
                self.env[s.target.id] = z3.IntVal(i)
                self.block(s.body)
            return
        seq = self.ev(it)
        if not isinstance(seq, SList):
            raise Outside(f"loop over {type(seq).__name__} at line {s.lineno}")
        if self.unroll:
            n = self.const_int(seq.len, s)
            for i in range(n):
                self.env[s.target.id] = z3.simplify(seq.at(i))
                self.block(s.body)
            return
        self.loop_no += 1
        no = self.loop_no
        if no not in self.invs:
            raise StaleContract(f"no invariant for loop #{no} (line {s.lineno})")
        inv = self.invs[no]

        def inv_at(i):
            clauses = inv(self.roles(), i)
            return [(nm, f) for nm, f in clauses]

        for nm, f in inv_at(z3.IntVal(0)):
            self.ob(f"loop{no}:init:{nm}", "inv-init", f, s.lineno)
        i = fresh_int("i")
        mod = self.modified(s.body)
        mod[s.target.id] = None
        saved_path = list(self.path)
        self.env = self.havoc_env(self.env, mod)
        self.env.setdefault(s.target.id, None)
        pre_env = self.snapshot()
        hyp_inv = [f for _, f in inv_at(i)]
        self.path = saved_path + hyp_inv + [0 <= i, i < seq.len]
        self.env[s.target.id] = seq.at(i)
        self.block(s.body)
        for nm, f in inv_at(i + 1):
            self.ob(f"loop{no}:step:{nm}", "inv-step", f, s.lineno)
        # after the loop: fresh state constrained by the invariant at i == len
        self.env = self.havoc_env(pre_env, mod)
        self.env[s.target.id] = fresh_int("last")
        self.path = saved_path + [f for _, f in inv_at(seq.len)]

    def run(self):
        self.block(self.fn.body)
        if self.ret is None:
            raise Outside("function does not end in a return")
        return self.ret


class FrameViolation(Exception):
    pass
