"""Static dataflow obligations decided on the real AST (DESIGN 3.3 kind 9): key linearity at the sampling
sites, randomness sources, hash-order dependence, and a straight-line field-effect executor used for
the Config and Operation contracts."""
from __future__ import annotations

import ast
from typing import Any, Dict, List, Optional, Set, Tuple

from vf import common


def parse(rel: str) -> Tuple[ast.Module, str]:
    src = (common.REPO / rel).read_text()
    return ast.parse(src), src


def functions(tree: ast.Module):
    def rec(node, prefix):
        for ch in ast.iter_child_nodes(node):
            if isinstance(ch, ast.ClassDef):
                yield from rec(ch, prefix + ch.name + ".")
            elif isinstance(ch, (ast.FunctionDef, ast.AsyncFunctionDef)):
                yield prefix + ch.name, ch
                yield from rec(ch, prefix + ch.name + ".")
    yield from rec(tree, "")


def _is_choice(call: ast.Call) -> bool:
    f = call.func
    return isinstance(f, ast.Attribute) and f.attr == "choice" and isinstance(f.value, ast.Attribute) and f.value.attr == "random" \
        and isinstance(f.value.value, ast.Name) and f.value.value.id == "jax"


def _blocks(fn: ast.AST):
    """all statement lists of a function (bodies of if / for / while / with / try / match, and the function body)"""
    out = []

    def rec(stmts):
        out.append(stmts)
        for st in stmts:
            for fld in ("body", "orelse", "finalbody"):
                sub = getattr(st, fld, None)
                if isinstance(sub, list) and sub and isinstance(sub[0], ast.stmt):
                    rec(sub)
            if isinstance(st, ast.Try):
                for h in st.handlers:
                    rec(h.body)
            if isinstance(st, ast.Match):
                for c in st.cases:
                    rec(c.body)
    rec(fn.body)
    return out


def _loads(node: ast.AST, name: str) -> int:
    return sum(1 for nd in ast.walk(node) if isinstance(nd, ast.Name) and nd.id == name and isinstance(nd.ctx, ast.Load))


def _config_names(fn: ast.AST) -> Set[str]:
    """local names bound to Config() in this function"""
    out = set()
    for nd in ast.walk(fn):
        if isinstance(nd, ast.Assign) and isinstance(nd.value, ast.Call) and isinstance(nd.value.func, ast.Name) and nd.value.func.id == "Config":
            for t in nd.targets:
                if isinstance(t, ast.Name):
                    out.add(t.id)
    return out


def key_linearity(rel: str) -> List[Dict[str, Any]]:
    """One obligation per jax.random.choice site: the key argument is a local bound, in the same block and with no
    use in between, to `<Config instance>.random_key`; it is used exactly once (by this call) and never stored."""
    tree, _ = parse(rel)
    res = []
    for q, fn in functions(tree):
        cfg = _config_names(fn)
        for block in _blocks(fn):
            for idx, st in enumerate(block):
                # only calls that belong to this statement directly (not to nested blocks, handled on their own)
                calls = [nd for nd in _own_nodes(st) if isinstance(nd, ast.Call) and _is_choice(nd)]
                for call in calls:
                    ok, why = True, ""
                    karg = call.args[0] if call.args else next((k.value for k in call.keywords if k.arg == "key"), None)
                    if not isinstance(karg, ast.Name):
                        ok, why = False, "key argument is not a local name"
                    else:
                        k = karg.id
                        # nearest preceding binding in the same block
                        j = idx - 1
                        bind = None
                        while j >= 0:
                            s2 = block[j]
                            if isinstance(s2, ast.Assign) and any(isinstance(t, ast.Name) and t.id == k for t in s2.targets):
                                bind = s2
                                break
                            if _loads(s2, k) or any(isinstance(n2, ast.Name) and n2.id == k and isinstance(n2.ctx, ast.Store) for n2 in ast.walk(s2)):
                                break
                            j -= 1
                        if bind is None:
                            ok, why = False, f"no binding of `{k}` in the same block before the draw (key may be reused across iterations / paths)"
                        else:
                            v = bind.value
                            if not (isinstance(v, ast.Attribute) and v.attr == "random_key" and isinstance(v.value, ast.Name) and v.value.id in cfg):
                                ok, why = False, f"`{k}` is bound to `{ast.unparse(v)[:40]}`, not to <Config()>.random_key"
                            elif _loads(st, k) != 1:
                                ok, why = False, f"`{k}` is used {_loads(st, k)} times in the drawing statement"
                            else:
                                # no further use until rebinding / end of block
                                for s3 in block[idx + 1:]:
                                    if isinstance(s3, ast.Assign) and any(isinstance(t, ast.Name) and t.id == k for t in s3.targets) and not _loads(s3.value, k):
                                        break
                                    if _loads(s3, k):
                                        ok, why = False, f"`{k}` is used again at line {s3.lineno} after the draw at line {call.lineno}"
                                        break
                    res.append({"function": q, "line": call.lineno, "ok": ok, "why": why})
    return res


def _own_nodes(st: ast.stmt):
    """nodes of a statement excluding nested statement blocks"""
    todo = [st]
    while todo:
        n = todo.pop()
        yield n
        for ch in ast.iter_child_nodes(n):
            if isinstance(ch, ast.stmt) and ch is not st:
                continue
            todo.append(ch)


ALLOWED_RANDOM = {("photon_weave/photon_weave.py", "Config.__init__"), ("photon_weave/photon_weave.py", "Config.set_seed"),
                  ("photon_weave/photon_weave.py", "Config.random_key")}


def randomness_sources(rel: str) -> List[Dict[str, Any]]:
    """Every randomness source other than jax.random.choice (keyed as above) outside Config is a violation:
    random.*, numpy.random / np.random, jax.random.PRNGKey / split / uniform / ..., os.urandom, secrets, time-seeded values."""
    tree, _ = parse(rel)
    res = []
    for q, fn in functions(tree):
        if (rel, q) in ALLOWED_RANDOM:
            continue
        for nd in ast.walk(fn):
            if isinstance(nd, ast.Attribute):
                txt = ast.unparse(nd)
                bad = None
                if txt.startswith("jax.random.") and nd.attr != "choice" and txt.count(".") == 2:
                    bad = txt
                elif txt.startswith(("np.random", "numpy.random", "jnp.random")) or txt in ("os.urandom",) or txt.startswith("secrets."):
                    bad = txt
                elif isinstance(nd.value, ast.Name) and nd.value.id == "random" and nd.attr not in ("choice",):
                    bad = txt
                elif txt.startswith("time.time") or txt.startswith("datetime.datetime.now"):
                    bad = txt
                if bad:
                    res.append({"function": q, "line": nd.lineno, "what": bad})
    return res


def hash_order_dependence(rel: str) -> List[Dict[str, Any]]:
    """No result may depend on uuid / hash order: a set built from subsystems or product states may only feed len()
    (or membership); iterating it, converting it to a list / tuple that is used beyond len(), sorted() on objects, or
    id()/hash() in control flow are flagged."""
    tree, _ = parse(rel)
    res = []
    parents: Dict[int, ast.AST] = {}
    for nd in ast.walk(tree):
        for ch in ast.iter_child_nodes(nd):
            parents[id(ch)] = nd
    for q, fn in functions(tree):
        for nd in ast.walk(fn):
            is_set = (isinstance(nd, ast.Call) and isinstance(nd.func, ast.Name) and nd.func.id in ("set", "frozenset")) or isinstance(nd, (ast.Set, ast.SetComp))
            if not is_set:
                continue
            # climb: allowed contexts are len(...), len(list(...)), `x in set`, comparison of lengths
            cur = nd
            ok = False
            for _ in range(4):
                par = parents.get(id(cur))
                if par is None:
                    break
                if isinstance(par, ast.Call) and isinstance(par.func, ast.Name) and par.func.id in ("len", "sorted", "min", "max", "sum"):
                    # len / min / max / sum do not depend on iteration order; sorted() restores a deterministic order (the
                    # elements must then be orderable values - subsystems are not, sorting them raises)
                    ok = True
                    break
                if isinstance(par, ast.Call) and isinstance(par.func, ast.Name) and par.func.id in ("list", "tuple") and par.args and par.args[0] is cur:
                    cur = par
                    continue
                if isinstance(par, ast.Compare) and any(isinstance(o, (ast.In, ast.NotIn)) for o in par.ops) and cur in par.comparators:
                    ok = True
                    break
                break
            if not ok:
                res.append({"function": q, "line": nd.lineno, "what": ast.unparse(parents.get(id(nd), nd))[:80]})
    return res
