"""Static dataflow obligations decided on the real AST (DESIGN 3.3 kind 9): key linearity at the sampling
sites, randomness sources, hash-order dependence, and a straight-line field-effect executor used for
the Config and Operation contracts."""
from __future__ import annotations

import ast
from typing import Any, Dict, List, Optional, Set, Tuple

from vf import common


def parse(rel: str) -> Tuple[ast.Module, str]:
    src = (common.REPO / rel).read_text()
    return ast.parse(src), src


def functions(tree: ast.Module):
    def rec(node, prefix):
        for ch in ast.iter_child_nodes(node):
            if isinstance(ch, ast.ClassDef):
                yield from rec(ch, prefix + ch.name + ".")
            elif isinstance(ch, (ast.FunctionDef, ast.AsyncFunctionDef)):
                yield prefix + ch.name, ch
                yield from rec(ch, prefix + ch.name + ".")
    yield from rec(tree, "")


def _is_choice(call: ast.Call) -> bool:
    f = call.func
    return isinstance(f, ast.Attribute) and f.attr == "choice" and isinstance(f.value, ast.Attribute) and f.value.attr == "random" \
        and isinstance(f.value.value, ast.Name) and f.value.value.id == "jax"


def _blocks(fn: ast.AST):
    """all statement lists of a function (bodies of if / for / while / with / try / match, and the function body)"""
    out = []

    def rec(stmts):
        out.append(stmts)
        for st in stmts:
            for fld in ("body", "orelse", "finalbody"):
                sub = getattr(st, fld, None)
                if isinstance(sub, list) and sub and isinstance(sub[0], ast.stmt):
                    rec(sub)
            if isinstance(st, ast.Try):
                for h in st.handlers:
                    rec(h.body)
            if isinstance(st, ast.Match):
                for c in st.cases:
                    rec(c.body)
    rec(fn.body)
    return out


def _loads(node: ast.AST, name: str) -> int:
    return sum(1 for nd in ast.walk(node) if isinstance(nd, ast.Name) and nd.id == name and isinstance(nd.ctx, ast.Load))


def _config_names(fn: ast.AST) -> Set[str]:
    """local names bound to Config() in this function"""
    out = set()
    for nd in ast.walk(fn):
        if isinstance(nd, ast.Assign) and isinstance(nd.value, ast.Call) and isinstance(nd.value.func, ast.Name) and nd.value.func.id == "Config":
            for t in nd.targets:
                if isinstance(t, ast.Name):
                    out.add(t.id)
    return out


def _fresh_key_binding(block, idx, k: str, st, lineno: int):
    """`k` is bound, in the same block and with no use in between, to `<something>.random_key`, used exactly once in statement `st`
    (the draw, or the call that hands it to a drawing helper) and not again before it is rebound.  Returns (ok, why)."""
    j = idx - 1
    bind = None
    while j >= 0:
        s2 = block[j]
        if isinstance(s2, ast.Assign) and any(isinstance(t, ast.Name) and t.id == k for t in s2.targets):
            bind = s2
            break
        if _loads(s2, k) or any(isinstance(n2, ast.Name) and n2.id == k and isinstance(n2.ctx, ast.Store) for n2 in ast.walk(s2)):
            break
        j -= 1
    if bind is None:
        return False, f"no binding of `{k}` in the same block before the draw (key may be reused across iterations / paths)"
    v = bind.value
    if not (isinstance(v, ast.Attribute) and v.attr == "random_key"):
        return False, f"`{k}` is bound to `{ast.unparse(v)[:40]}`, not to a fresh read of <Config>.random_key"
    if _loads(st, k) != 1:
        return False, f"`{k}` is used {_loads(st, k)} times in the drawing statement"
    for s3 in block[idx + 1:]:
        if isinstance(s3, ast.Assign) and any(isinstance(t, ast.Name) and t.id == k for t in s3.targets) and not _loads(s3.value, k):
            break
        if _loads(s3, k):
            return False, f"`{k}` is used again at line {s3.lineno} after the draw at line {lineno}"
    return True, ""


def key_linearity(rel: str) -> List[Dict[str, Any]]:
    """One obligation per jax.random.choice site: the key is a FRESH read of `<Config>.random_key` that is used for this draw only.
    Accepted forms: the read is the argument itself; or a local bound to it in the same block, with no use in between, used once and never
    again before it is rebound; or - when the draw sits in a helper - a parameter of the helper that is used once, every call of the helper
    in this file passing a fresh read in one of the two forms above."""
    tree, _ = parse(rel)
    res = []
    allfns = list(functions(tree))
    for q, fn in allfns:
        params = {a.arg for a in fn.args.args + fn.args.kwonlyargs}
        for block in _blocks(fn):
            for idx, st in enumerate(block):
                # only calls that belong to this statement directly (not to nested blocks, handled on their own)
                calls = [nd for nd in _own_nodes(st) if isinstance(nd, ast.Call) and _is_choice(nd)]
                for call in calls:
                    ok, why = True, ""
                    karg = call.args[0] if call.args else next((k.value for k in call.keywords if k.arg == "key"), None)
                    if isinstance(karg, ast.Attribute) and karg.attr == "random_key":
                        pass                                   # fresh read used in place
                    elif not isinstance(karg, ast.Name):
                        ok, why = False, "key argument is neither a local name nor a fresh read of <Config>.random_key"
                    elif karg.id in params and not any(isinstance(n2, ast.Name) and n2.id == karg.id and isinstance(n2.ctx, ast.Store) for n2 in ast.walk(fn)):
                        k = karg.id
                        if _loads(fn, k) != 1:
                            ok, why = False, f"key parameter `{k}` of the helper is used {_loads(fn, k)} times"
                        else:
                            hname = q.split(".")[-1]
                            pos = [a.arg for a in fn.args.args].index(k) if k in [a.arg for a in fn.args.args] else None
                            is_method = "." in q and fn.args.args and fn.args.args[0].arg in ("self", "cls")
                            for q2, fn2 in allfns:
                                for block2 in _blocks(fn2):
                                    for idx2, st2 in enumerate(block2):
                                        for c2 in [nd for nd in _own_nodes(st2) if isinstance(nd, ast.Call)]:
                                            f2 = c2.func
                                            if not ((isinstance(f2, ast.Name) and f2.id == hname) or (isinstance(f2, ast.Attribute) and f2.attr == hname)):
                                                continue
                                            arg = next((kw.value for kw in c2.keywords if kw.arg == k), None)
                                            if arg is None and pos is not None:
                                                p2 = pos - (1 if (is_method and isinstance(f2, ast.Attribute)) else 0)
                                                arg = c2.args[p2] if 0 <= p2 < len(c2.args) else None
                                            if isinstance(arg, ast.Attribute) and arg.attr == "random_key":
                                                continue
                                            if isinstance(arg, ast.Name):
                                                ok2, why2 = _fresh_key_binding(block2, idx2, arg.id, st2, c2.lineno)
                                                if ok2:
                                                    continue
                                                ok, why = False, f"call of the drawing helper at line {c2.lineno}: {why2}"
                                            else:
                                                ok, why = False, f"call of the drawing helper at line {c2.lineno} does not pass a fresh key"
                    else:
                        ok, why = _fresh_key_binding(block, idx, karg.id, st, call.lineno)
                    res.append({"function": q, "line": call.lineno, "ok": ok, "why": why})
    return res


def _own_nodes(st: ast.stmt):
    """nodes of a statement excluding nested statement blocks"""
    todo = [st]
    while todo:
        n = todo.pop()
        yield n
        for ch in ast.iter_child_nodes(n):
            if isinstance(ch, ast.stmt) and ch is not st:
                continue
            todo.append(ch)


ALLOWED_RANDOM = {("photon_weave/photon_weave.py", "Config.__init__"), ("photon_weave/photon_weave.py", "Config.set_seed"),
                  ("photon_weave/photon_weave.py", "Config.random_key")}


def randomness_sources(rel: str) -> List[Dict[str, Any]]:
    """Every randomness source other than jax.random.choice (keyed as above) outside Config is a violation:
    random.*, numpy.random / np.random, jax.random.PRNGKey / split / uniform / ..., os.urandom, secrets, time-seeded values."""
    tree, _ = parse(rel)
    res = []
    for q, fn in functions(tree):
        if (rel, q) in ALLOWED_RANDOM or (rel == "photon_weave/photon_weave.py" and q.startswith("Config.")):
            continue        # Config is the one place where keys are created and split (its methods are under field-effect contracts)
        for nd in ast.walk(fn):
            if isinstance(nd, ast.Attribute):
                txt = ast.unparse(nd)
                bad = None
                if txt.startswith("jax.random.") and nd.attr != "choice" and txt.count(".") == 2:
                    bad = txt
                elif txt.startswith(("np.random", "numpy.random", "jnp.random")) or txt in ("os.urandom",) or txt.startswith("secrets."):
                    bad = txt
                elif isinstance(nd.value, ast.Name) and nd.value.id == "random" and nd.attr not in ("choice",):
                    bad = txt
                elif txt.startswith("time.time") or txt.startswith("datetime.datetime.now"):
                    bad = txt
                if bad:
                    res.append({"function": q, "line": nd.lineno, "what": bad})
    return res


def hash_order_dependence(rel: str) -> List[Dict[str, Any]]:
    """No result may depend on uuid / hash order: a set built from subsystems or product states may only feed len()
    (or membership); iterating it, converting it to a list / tuple that is used beyond len(), sorted() on objects, or
    id()/hash() in control flow are flagged."""
    tree, _ = parse(rel)
    res = []
    parents: Dict[int, ast.AST] = {}
    for nd in ast.walk(tree):
        for ch in ast.iter_child_nodes(nd):
            parents[id(ch)] = nd
    for q, fn in functions(tree):
        for nd in ast.walk(fn):
            is_set = (isinstance(nd, ast.Call) and isinstance(nd.func, ast.Name) and nd.func.id in ("set", "frozenset")) or isinstance(nd, (ast.Set, ast.SetComp))
            if not is_set:
                continue
            # climb: allowed contexts are len(...), len(list(...)), `x in set`, comparison of lengths
            cur = nd
            ok = False
            for _ in range(4):
                par = parents.get(id(cur))
                if par is None:
                    break
                if isinstance(par, ast.Call) and isinstance(par.func, ast.Name) and par.func.id in ("len", "sorted", "min", "max", "sum"):
                    # len / min / max / sum do not depend on iteration order; sorted() restores a deterministic order (the
                    # elements must then be orderable values - subsystems are not, sorting them raises)
                    ok = True
                    break
                if isinstance(par, ast.Call) and isinstance(par.func, ast.Name) and par.func.id in ("list", "tuple") and par.args and par.args[0] is cur:
                    cur = par
                    continue
                if isinstance(par, ast.Compare) and any(isinstance(o, (ast.In, ast.NotIn)) for o in par.ops) and cur in par.comparators:
                    ok = True
                    break
                break
            if not ok:
                res.append({"function": q, "line": nd.lineno, "what": ast.unparse(parents.get(id(nd), nd))[:80]})
    return res


DELEGATED = ("apply_operation", "apply_kraus", "measure_POVM", "trace_out", "resize_fock", "measure")


def delegation_sites(rel: str, methods=DELEGATED) -> List[Dict[str, Any]]:
    """Every call `<receiver>.<m>(...)` inside a method named <m> (a request routed to another container): the request is
    forwarded unchanged.  Positional arguments are, in the declared order, the enclosing method's own parameters (bare names), the
    starred vararg as it is, or `self` / the loop variable standing for ONE operand; keyword arguments are `flag=flag` of the
    enclosing method's parameters or constants.  No expression (reversal, slicing, conjugation, re-ordering) may sit in between."""
    tree, _ = parse(rel)
    res = []
    for q, fn in functions(tree):
        name = q.split(".")[-1]
        if name not in methods:
            continue
        params = [a.arg for a in fn.args.args] + [a.arg for a in fn.args.kwonlyargs]
        vararg = fn.args.vararg.arg if fn.args.vararg else None
        selfn = fn.args.args[0].arg if fn.args.args else "self"
        loopvars = {t.id for nd in ast.walk(fn) if isinstance(nd, (ast.For, ast.comprehension)) for t in ast.walk(nd.target) if isinstance(t, ast.Name)}
        for nd in ast.walk(fn):
            if not (isinstance(nd, ast.Call) and isinstance(nd.func, ast.Attribute) and nd.func.attr == name):
                continue
            ok, why = True, ""
            seen_params: List[int] = []
            for a in nd.args:
                if isinstance(a, ast.Starred):
                    inner = a.value
                    if isinstance(inner, ast.Call) and isinstance(inner.func, ast.Name) and inner.func.id in ("tuple", "list") and len(inner.args) == 1 and not inner.keywords:
                        inner = inner.args[0]           # *tuple(states) / *list(states): the same operands in the same order
                    if isinstance(inner, ast.Name) and (inner.id == vararg or inner.id not in params):
                        continue
                    if not (isinstance(a.value, ast.Name) and (a.value.id == vararg or a.value.id not in params)):
                        ok, why = False, f"starred argument `{ast.unparse(a)}` is not the caller's own operand tuple"
                    elif isinstance(a.value, ast.Name) and a.value.id != vararg:
                        # a local list (e.g. the operands living in one product space): accepted only if it is built by a filter over the vararg / a container list
                        pass
                elif isinstance(a, ast.Name):
                    if a.id in params and a.id != selfn:
                        seen_params.append(params.index(a.id))
                    elif a.id == selfn or a.id in loopvars or a.id not in params:
                        pass
                elif isinstance(a, ast.Attribute) and isinstance(a.value, ast.Name) and a.value.id == selfn:
                    pass        # self.fock / self.polarization
                else:
                    ok, why = False, f"argument `{ast.unparse(a)[:50]}` is an expression, not a forwarded parameter"
            if ok and seen_params != sorted(seen_params):
                ok, why = False, "parameters are forwarded in a different order than declared"
            for k in nd.keywords:
                if k.arg is None:
                    ok, why = False, "**kwargs forwarding"
                elif isinstance(k.value, ast.Constant):
                    continue
                elif not (isinstance(k.value, ast.Name) and k.value.id == k.arg and k.arg in params):
                    ok, why = False, f"flag `{k.arg}` receives `{ast.unparse(k.value)[:40]}`, not the caller's `{k.arg}`"
            res.append({"function": q, "line": nd.lineno, "call": ast.unparse(nd)[:100], "ok": ok, "why": why})
    return res
