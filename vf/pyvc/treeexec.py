"""pyvc, part 2: verification of `extra/expression_interpreter.interpreter` (C16) by structural induction.

Encoding (DESIGN section 7, C16): expressions are an uninterpreted sort with observers
kind / head / nargs / arg(e, i); values are an uninterpreted sort with uninterpreted operations
add, sub, mul, matmul, kron, expm, div, ctx(name, dims), lit(e).  The spec function eval is
axiomatised per command from the documented algebra, n-ary commands as left folds in argument
order.  Recursive calls are replaced by the contract (induction hypothesis; `decreases` = tree size:
every recursive call is on arg(e, i) with 0 <= i < nargs(e), checked as an obligation).

The function's AST is executed as is; supported statement forms: if / elif / else on
isinstance(expr, tuple|str) and `op == "<literal>"`, `op, *args = expr`, assignments of calls,
`for arg in args[1:]` with the fold invariant, return, raise.  Anything else => outside subset.
Assumed: jnp.add/subtract/kron, `*`, `@`, `/`, expm denote the mathematical operations (trusted),
`isinstance(expr, tuple)` / `str` partition expressions by kind.
"""
from __future__ import annotations

import ast
from typing import Any, Dict, List, Optional, Tuple

import z3

from .listexec import Outside, VC

Expr = z3.DeclareSort("Expr")
Val = z3.DeclareSort("Val")
KIND_TUPLE, KIND_STR, KIND_OTHER = 0, 1, 2
HEADS = {"add": 1, "sub": 2, "s_mult": 3, "m_mult": 4, "kron": 5, "expm": 6, "div": 7}
NARY = {"add", "s_mult", "m_mult", "kron"}

kind = z3.Function("kind", Expr, z3.IntSort())
head = z3.Function("head", Expr, z3.IntSort())
nargs = z3.Function("nargs", Expr, z3.IntSort())
arg = z3.Function("arg", Expr, z3.IntSort(), Expr)
ev = z3.Function("eval", Expr, Val)
fold = z3.Function("fold", z3.IntSort(), Expr, z3.IntSort(), Val)
binop = z3.Function("bin", z3.IntSort(), Val, Val, Val)
f_expm = z3.Function("expm", Val, Val)
f_ctx = z3.Function("ctx", Expr, Val)      # context[name](dimensions) for a fixed context / dimension list
f_lit = z3.Function("lit", Expr, Val)      # a literal leaf denotes itself


def spec_axioms():
    """eval_spec, written from the documented algebra (property statement of C16)."""
    e = z3.Const("e", Expr)
    j = z3.Int("j")
    h = z3.Int("h")
    ax = []
    for name in NARY:
        H = HEADS[name]
        ax.append(z3.ForAll([e], z3.Implies(z3.And(kind(e) == KIND_TUPLE, head(e) == H), ev(e) == fold(H, e, nargs(e)))))
    ax.append(z3.ForAll([h, e], fold(h, e, 1) == ev(arg(e, 0))))
    ax.append(z3.ForAll([h, e, j], z3.Implies(j >= 1, fold(h, e, j + 1) == binop(h, fold(h, e, j), ev(arg(e, j))))))
    ax.append(z3.ForAll([e], z3.Implies(z3.And(kind(e) == KIND_TUPLE, head(e) == HEADS["sub"]),
                                        ev(e) == binop(HEADS["sub"], ev(arg(e, 0)), ev(arg(e, 1))))))
    ax.append(z3.ForAll([e], z3.Implies(z3.And(kind(e) == KIND_TUPLE, head(e) == HEADS["div"]),
                                        ev(e) == binop(HEADS["div"], ev(arg(e, 0)), ev(arg(e, 1))))))
    ax.append(z3.ForAll([e], z3.Implies(z3.And(kind(e) == KIND_TUPLE, head(e) == HEADS["expm"]), ev(e) == f_expm(ev(arg(e, 0))))))
    ax.append(z3.ForAll([e], z3.Implies(kind(e) == KIND_STR, ev(e) == f_ctx(e))))
    ax.append(z3.ForAll([e], z3.Implies(kind(e) == KIND_OTHER, ev(e) == f_lit(e))))
    return ax


def well_formed(e):
    """Precondition: arities of the documented commands (n-ary >= 1, binary == 2 are enough: >= 2, unary >= 1)."""
    return z3.And(
        z3.Or(kind(e) == KIND_TUPLE, kind(e) == KIND_STR, kind(e) == KIND_OTHER),
        z3.Implies(kind(e) == KIND_TUPLE, nargs(e) >= 0),
        z3.Implies(z3.And(kind(e) == KIND_TUPLE, z3.Or(*[head(e) == HEADS[n] for n in NARY])), nargs(e) >= 1),
        z3.Implies(z3.And(kind(e) == KIND_TUPLE, z3.Or(head(e) == HEADS["sub"], head(e) == HEADS["div"])), nargs(e) >= 2),
        z3.Implies(z3.And(kind(e) == KIND_TUPLE, head(e) == HEADS["expm"]), nargs(e) >= 1))


class ArgList:
    """the starred target `args` of `op, *args = expr`, possibly sliced: element i is arg(e, off + i)"""

    def __init__(self, e, off=0):
        self.e, self.off = e, off


class TreeExec:
    def __init__(self, fn: ast.FunctionDef):
        self.fn = fn
        self.name = fn.name
        params = [a.arg for a in fn.args.args]
        if len(params) != 3:
            raise Outside("interpreter signature changed")
        self.p_expr, self.p_ctx, self.p_dims = params
        self.e = z3.Const("e0", Expr)
        self.vcs: List[VC] = []
        self.returns = 0
        self.raises = 0
        self.aug: List[int] = []

    # ---------------------------------------------------------------- expressions
    def rec_call(self, node: ast.Call, env, path):
        if not (len(node.args) == 3 and isinstance(node.args[1], ast.Name) and node.args[1].id == self.p_ctx
                and isinstance(node.args[2], ast.Name) and node.args[2].id == self.p_dims):
            raise Outside(f"recursive call with changed context / dimensions at line {node.lineno}")
        x = self.val(node.args[0], env, path, want_expr=True)
        # decreases: the callee's argument is a proper sub-expression
        i = z3.Int("di")
        self.vcs.append(VC(f"decreases@{node.lineno}", "requires", list(path),
                           z3.Exists([i], z3.And(0 <= i, i < nargs(self.e), x == arg(self.e, i), kind(self.e) == KIND_TUPLE))))
        return ev(x)     # induction hypothesis: the callee returns eval_spec of its argument

    def val(self, node, env, path, want_expr=False):
        if isinstance(node, ast.Name):
            if node.id not in env:
                raise Outside(f"unbound {node.id}")
            return env[node.id]
        if isinstance(node, ast.Subscript):
            base = self.val(node.value, env, path)
            if isinstance(base, ArgList):
                if isinstance(node.slice, ast.Constant) and isinstance(node.slice.value, int) and node.slice.value >= 0:
                    k = base.off + node.slice.value
                    self.vcs.append(VC(f"index-in-range@{node.lineno}", "index", list(path), k < nargs(base.e)))
                    return arg(base.e, k)
                if isinstance(node.slice, ast.Slice) and node.slice.upper is None and node.slice.step is None \
                        and isinstance(node.slice.lower, ast.Constant):
                    return ArgList(base.e, base.off + node.slice.lower.value)
            if isinstance(base, tuple) and base[0] == "context" and isinstance(node.slice, ast.Name):
                return ("ctxfn", env[node.slice.id])
            raise Outside(f"subscript at line {node.lineno}")
        if isinstance(node, ast.Call):
            f = node.func
            if isinstance(f, ast.Name) and f.id == self.name:
                return self.rec_call(node, env, path)
            if isinstance(f, ast.Attribute) and isinstance(f.value, ast.Name) and f.value.id == "jnp" and len(node.args) == 2:
                table = {"add": "add", "subtract": "sub", "kron": "kron", "matmul": "m_mult", "multiply": "s_mult", "divide": "div"}
                if f.attr in table:
                    a = self.val(node.args[0], env, path)
                    b = self.val(node.args[1], env, path)
                    return binop(HEADS[table[f.attr]], a, b)
            if isinstance(f, ast.Name) and f.id == "expm" and len(node.args) == 1:
                return f_expm(self.val(node.args[0], env, path))
            if isinstance(f, ast.Subscript):
                fn = self.val(f, env, path)
                if isinstance(fn, tuple) and fn[0] == "ctxfn" and len(node.args) == 1 and isinstance(node.args[0], ast.Name) \
                        and node.args[0].id == self.p_dims:
                    return f_ctx(fn[1])
            raise Outside(f"call {ast.unparse(node)[:50]} at line {node.lineno}")
        if isinstance(node, ast.BinOp):
            ops = {ast.Mult: "s_mult", ast.MatMult: "m_mult", ast.Div: "div", ast.Add: "add", ast.Sub: "sub"}
            if type(node.op) in ops:
                return binop(HEADS[ops[type(node.op)]], self.val(node.left, env, path), self.val(node.right, env, path))
        raise Outside(f"{type(node).__name__} at line {getattr(node, 'lineno', '?')}")

    def cond(self, t, env):
        if isinstance(t, ast.Call) and isinstance(t.func, ast.Name) and t.func.id == "isinstance" and len(t.args) == 2 \
                and isinstance(t.args[0], ast.Name) and t.args[0].id == self.p_expr and isinstance(t.args[1], ast.Name):
            if t.args[1].id == "tuple":
                return kind(self.e) == KIND_TUPLE
            if t.args[1].id == "str":
                return kind(self.e) == KIND_STR
        if isinstance(t, ast.Compare) and len(t.ops) == 1 and isinstance(t.ops[0], ast.Eq) and isinstance(t.left, ast.Name) \
                and isinstance(t.comparators[0], ast.Constant) and isinstance(t.comparators[0].value, str):
            v = env.get(t.left.id)
            if z3.is_expr(v) and v.sort() == z3.IntSort():
                lit = t.comparators[0].value
                return v == z3.IntVal(HEADS.get(lit, 1000 + (hash(lit) % 1000)))
        raise Outside(f"condition {ast.unparse(t)[:60]}")

    # ---------------------------------------------------------------- statements (path enumeration)
    def run(self):
        env = {self.p_expr: self.e, self.p_ctx: ("context",), self.p_dims: ("dims",)}
        path = spec_axioms() + [well_formed(self.e)]
        e = z3.Const("sub", Expr)
        # induction hypothesis is used through eval(); sub-expressions of a well-formed expression are well-formed
        i = z3.Int("wi")
        path.append(z3.ForAll([i], z3.Implies(z3.And(0 <= i, i < nargs(self.e)), well_formed(arg(self.e, i)))))
        self.block(self.fn.body, env, path, top=True)
        return self.vcs

    def block(self, stmts, env, path, top=False):
        """Executes a block on one path; returns the list of path conditions with which control falls through its end."""
        for k, s in enumerate(stmts):
            if isinstance(s, ast.Expr) and isinstance(s.value, ast.Constant):
                continue
            if isinstance(s, ast.If):
                c = self.cond(s.test, env)
                ft = self.block(s.body, dict(env), path + [c])
                ft += self.block(s.orelse, dict(env), path + [z3.Not(c)]) if s.orelse else [(path + [z3.Not(c)], dict(env))]
                rest = stmts[k + 1:]
                out = []
                for fp, fenv in ft:
                    out += self.block(rest, fenv, fp, top=False)
                if top and out:
                    raise Outside("function can fall off its end (returns None)")
                return out
            if isinstance(s, ast.Assign) and len(s.targets) == 1:
                t = s.targets[0]
                if isinstance(t, ast.Tuple) and len(t.elts) == 2 and isinstance(t.elts[0], ast.Name) and isinstance(t.elts[1], ast.Starred) \
                        and isinstance(s.value, ast.Name) and s.value.id == self.p_expr:
                    # op, *args = expr   (needs a non-empty tuple; an empty tuple raises ValueError = rejection)
                    env[t.elts[0].id] = head(self.e)
                    env[t.elts[1].value.id] = ArgList(self.e, 0)
                    continue
                if isinstance(t, ast.Name):
                    env[t.id] = self.val(s.value, env, path)
                    continue
                raise Outside(f"assignment at line {s.lineno}")
            if isinstance(s, ast.AugAssign):
                self.aug.append(s.lineno)
                ops = {ast.Mult: "s_mult", ast.MatMult: "m_mult", ast.Add: "add", ast.Sub: "sub", ast.Div: "div"}
                if isinstance(s.target, ast.Name) and type(s.op) in ops:
                    env[s.target.id] = binop(HEADS[ops[type(s.op)]], env[s.target.id], self.val(s.value, env, path))
                    continue
                raise Outside(f"augmented assignment at line {s.lineno}")
            if isinstance(s, ast.For):
                self.loop(s, env, path)
                continue
            if isinstance(s, ast.Return):
                self.returns += 1
                v = self.val(s.value, env, path)
                if not (z3.is_expr(v) and v.sort() == Val):
                    if z3.is_expr(v) and v.sort() == Expr:
                        v = f_lit(v)        # `return expr`: a literal leaf denotes itself
                    else:
                        raise Outside(f"return value at line {s.lineno}")
                self.vcs.append(VC(f"ensures:result-is-eval_spec@{s.lineno}", "ensures", list(path), v == ev(self.e)))
                self.vcs.append(VC(f"ensures:only-known-commands-return@{s.lineno}", "ensures", list(path),
                                   z3.Implies(kind(self.e) == KIND_TUPLE, z3.Or(*[head(self.e) == h for h in HEADS.values()]))))
                return []
            if isinstance(s, ast.Raise):
                self.raises += 1
                # raises clause: only malformed expressions (tuple with an unknown head) are rejected
                self.vcs.append(VC(f"raises:only-unknown-command@{s.lineno}", "raises", list(path),
                                   z3.And(kind(self.e) == KIND_TUPLE, z3.And(*[head(self.e) != h for h in HEADS.values()]))))
                return []
            raise Outside(f"{type(s).__name__} at line {s.lineno}")
        if top:
            raise Outside("function can fall off its end (returns None)")
        return [(path, env)]

    def loop(self, s: ast.For, env, path):
        if not (isinstance(s.target, ast.Name) and not s.orelse):
            raise Outside("loop shape")
        seq = self.val(s.iter, env, path)
        if not isinstance(seq, ArgList) or seq.off != 1:
            raise Outside("loop is not over args[1:]")
        acc = None
        for st in s.body:
            for nd in ast.walk(st):
                if isinstance(nd, (ast.Assign, ast.AugAssign)):
                    t = nd.targets[0] if isinstance(nd, ast.Assign) else nd.target
                    if isinstance(t, ast.Name):
                        acc = t.id if acc in (None, t.id) else "<many>"
        if acc is None or acc == "<many>" or acc not in env:
            raise Outside("loop does not update exactly one accumulator")
        opv = None
        for k, v in env.items():
            if z3.is_expr(v) and v.sort() == z3.IntSort() and z3.eq(v, head(self.e)):
                opv = v
        if opv is None:
            raise Outside("command symbol not bound")
        inv = lambda res, j: res == fold(head(self.e), self.e, j)
        # initiation at j = 1
        self.vcs.append(VC(f"loop@{s.lineno}:init:acc-is-fold", "inv-init", list(path), inv(env[acc], z3.IntVal(1))))
        j = z3.Int(f"j!{s.lineno}")
        r = z3.Const(f"acc!{s.lineno}", Val)
        env2 = dict(env)
        env2[acc] = r
        env2[s.target.id] = arg(self.e, j)
        p2 = path + [j >= 1, j < nargs(self.e), inv(r, j)]
        self.body_only_assigns(s.body)
        for st in s.body:
            if isinstance(st, ast.Assign) and isinstance(st.targets[0], ast.Name):
                env2[st.targets[0].id] = self.val(st.value, env2, p2)
            elif isinstance(st, ast.AugAssign) and isinstance(st.target, ast.Name):
                self.aug.append(st.lineno)
                ops = {ast.Mult: "s_mult", ast.MatMult: "m_mult", ast.Add: "add", ast.Sub: "sub", ast.Div: "div"}
                env2[st.target.id] = binop(HEADS[ops[type(st.op)]], env2[st.target.id], self.val(st.value, env2, p2))
            else:
                raise Outside(f"statement in loop at line {st.lineno}")
        self.vcs.append(VC(f"loop@{s.lineno}:step:acc-is-fold", "inv-step", list(p2), inv(env2[acc], j + 1)))
        r2 = z3.Const(f"accx!{s.lineno}", Val)
        env[acc] = r2
        path.append(inv(r2, nargs(self.e)))
        path.append(nargs(self.e) >= 1)

    @staticmethod
    def body_only_assigns(body):
        for st in body:
            if not isinstance(st, (ast.Assign, ast.AugAssign)):
                raise Outside(f"{type(st).__name__} inside the fold loop")
