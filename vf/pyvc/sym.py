"""Symbolic value domain of pyvc and the two-backend contract DSL.

A contract predicate is ordinary Python written against a `Q` object.  With `QSym` it builds a z3
formula over symbolic lists; with `QConc` it evaluates on concrete Python values.  The *same text*
is therefore the proof obligation and the executable contract used for replay / small-scope search.
"""
from __future__ import annotations

import itertools
from typing import Any, Callable, List

import z3

_fresh = itertools.count()


def fresh_name(p: str = "v") -> str:
    return f"{p}!{next(_fresh)}"


def fresh_int(p: str = "v"):
    return z3.Int(fresh_name(p))


IntArr = z3.ArraySort(z3.IntSort(), z3.IntSort())


class SList:
    """Python list of ints / object references:  (len : Int, arr : Int -> Int)."""

    def __init__(self, ln, arr):
        self.len, self.arr = ln, arr

    @staticmethod
    def fresh(name: str) -> "SList":
        n = fresh_name(name)
        return SList(z3.Int(n + "_len"), z3.Array(n + "_arr", z3.IntSort(), z3.IntSort()))

    @staticmethod
    def named(name: str) -> "SList":
        return SList(z3.Int(name + "_len"), z3.Array(name, z3.IntSort(), z3.IntSort()))

    @staticmethod
    def empty() -> "SList":
        return SList(z3.IntVal(0), z3.K(z3.IntSort(), z3.IntVal(0)))

    def append(self, v) -> "SList":
        return SList(self.len + 1, z3.Store(self.arr, self.len, v))

    def at(self, i):
        return z3.Select(self.arr, i)


class PyList:
    """Python list of statically known length whose items are symbolic values (e.g. [[], [], []])."""

    def __init__(self, items):
        self.items = list(items)

    def copy(self) -> "PyList":
        return PyList([x.copy() if isinstance(x, PyList) else x for x in self.items])


class SDict:
    """dict keyed by object reference.  kind 'list': value is a list of ints; kind 'int': value is an int.
    Key set is tracked (dom) so that missing-key subscripts become obligations."""

    def __init__(self, kind, dom, lens, vals):
        self.kind, self.dom, self.lens, self.vals = kind, dom, lens, vals

    @staticmethod
    def fresh(kind: str, name: str) -> "SDict":
        n = fresh_name(name)
        dom = z3.Array(n + "_dom", z3.IntSort(), z3.BoolSort())
        if kind == "list":
            return SDict(kind, dom, z3.Array(n + "_lens", z3.IntSort(), z3.IntSort()),
                         z3.Array(n + "_vals", z3.IntSort(), IntArr))
        return SDict(kind, dom, None, z3.Array(n + "_vals", z3.IntSort(), z3.IntSort()))

    def has(self, k):
        return z3.Select(self.dom, k)

    def get(self, k):
        if self.kind == "list":
            return SList(z3.Select(self.lens, k), z3.Select(self.vals, k))
        return z3.Select(self.vals, k)

    def set(self, k, v) -> "SDict":
        if self.kind == "list":
            return SDict(self.kind, z3.Store(self.dom, k, True), z3.Store(self.lens, k, v.len),
                         z3.Store(self.vals, k, v.arr))
        return SDict(self.kind, z3.Store(self.dom, k, True), None, z3.Store(self.vals, k, v))


class SCounter:
    """itertools.count(start): next value."""

    def __init__(self, v):
        self.v = v


# --------------------------------------------------------------------------- contract DSL back ends
class QSym:
    """Builds z3 formulas."""
    symbolic = True

    def len(self, L):
        return L.len

    def at(self, L, i):
        return L.at(i)

    def all(self, *xs):
        xs = [x if z3.is_expr(x) else z3.BoolVal(bool(x)) for x in xs]
        return z3.And(*xs) if xs else z3.BoolVal(True)

    def any(self, *xs):
        xs = [x if z3.is_expr(x) else z3.BoolVal(bool(x)) for x in xs]
        return z3.Or(*xs) if xs else z3.BoolVal(False)

    def implies(self, a, b):
        return z3.Implies(a, b)

    def neg(self, a):
        return z3.Not(a)

    def ite(self, c, a, b):
        return z3.If(c, a, b)

    def forall(self, lo, hi, f: Callable):
        v = fresh_int("q")
        return z3.ForAll([v], z3.Implies(z3.And(lo <= v, v < hi), f(v)))

    def forall2(self, lo, hi, f: Callable):
        a, b = fresh_int("qa"), fresh_int("qb")
        return z3.ForAll([a, b], z3.Implies(z3.And(lo <= a, a < hi, lo <= b, b < hi), f(a, b)))

    def forall_pair(self, lo1, hi1, lo2, hi2, f: Callable):
        a, b = fresh_int("qa"), fresh_int("qb")
        return z3.ForAll([a, b], z3.Implies(z3.And(lo1 <= a, a < hi1, lo2 <= b, b < hi2), f(a, b)))

    def exists(self, lo, hi, f: Callable):
        v = fresh_int("e")
        return z3.Exists([v], z3.And(lo <= v, v < hi, f(v)))

    def member(self, x, L):
        return self.exists(0, L.len, lambda j: L.at(j) == x)


class QConc:
    """Evaluates on concrete python values (lists of ints, ints, functions)."""
    symbolic = False

    def len(self, L):
        return len(L)

    def at(self, L, i):
        return L[i] if 0 <= i < len(L) else None

    def all(self, *xs):
        return all(bool(x) for x in xs)

    def any(self, *xs):
        return any(bool(x) for x in xs)

    def implies(self, a, b):
        return (not a) or bool(b)

    def neg(self, a):
        return not a

    def ite(self, c, a, b):
        return a if c else b

    def forall(self, lo, hi, f):
        return all(f(v) for v in range(lo, hi))

    def forall2(self, lo, hi, f):
        return all(f(a, b) for a in range(lo, hi) for b in range(lo, hi))

    def forall_pair(self, lo1, hi1, lo2, hi2, f):
        return all(f(a, b) for a in range(lo1, hi1) for b in range(lo2, hi2))

    def exists(self, lo, hi, f):
        return any(f(v) for v in range(lo, hi))

    def member(self, x, L):
        return any(y == x for y in L)


class LazyConj:
    """Concrete evaluation helper: evaluates a list of (name, thunk) clauses and reports the failing names."""

    def __init__(self):
        self.clauses: List[Any] = []
