"""Symbolic evaluation of the arms of a `match self:` dispatch (dimension rules, operator dispatch): the arm that handles a member is found
through value and or-patterns, its body (assignments, one-armed ifs that re-assign a local, a final return) is evaluated with sympy.
Anything else raises Outside - the caller then reports NOT-COVERED for an edited function instead of guessing."""
from __future__ import annotations

import ast
from typing import Any, Dict, List, Optional

import sympy as sp

from .listexec import Outside


def pattern_members(p) -> List[str]:
    if isinstance(p, ast.MatchValue):
        return [ast.unparse(p.value).split(".")[-1]]
    if isinstance(p, ast.MatchOr):
        out = []
        for q in p.patterns:
            out += pattern_members(q)
        return out
    return []


def arm_for(fn: ast.FunctionDef, member: str) -> Optional[List[ast.stmt]]:
    for s in fn.body:
        if isinstance(s, ast.Match):
            for c in s.cases:
                if member in pattern_members(c.pattern) and c.guard is None:
                    return c.body
    return None


def eval_arm(stmts: List[ast.stmt], symbols: Dict[str, Any]) -> List[Any]:
    """returns the list of sympy expressions returned by the arm"""
    env = dict(symbols)

    def ev(e):
        if isinstance(e, ast.Constant) and isinstance(e.value, (int, float)):
            return sp.Integer(e.value) if isinstance(e.value, int) else sp.Float(e.value)
        if isinstance(e, ast.Name):
            if e.id in env:
                return env[e.id]
            raise Outside(f"name {e.id}")
        if isinstance(e, ast.BinOp):
            l, r = ev(e.left), ev(e.right)
            if isinstance(e.op, ast.Add):
                return l + r
            if isinstance(e.op, ast.Sub):
                return l - r
            if isinstance(e.op, ast.Mult):
                return l * r
        if isinstance(e, ast.Call):
            f = ast.unparse(e.func)
            if f == "int" and len(e.args) == 1:
                return ev(e.args[0])
            if f in ("jnp.sum", "np.sum", "sum") and len(e.args) == 1:
                a = e.args[0]
                if isinstance(a, ast.Call) and ast.unparse(a.func) in ("jnp.array", "np.array", "jnp.asarray") and len(a.args) == 1:
                    a = a.args[0]
                v = ev(a)
                if v == sp.Symbol("num_quanta_list"):
                    return sp.Symbol("total")
                raise Outside("sum of an unknown list")
            if f.endswith(".compute_dimensions") and not e.args:
                return sp.Symbol("estimate")
            if f == "max" and len(e.args) == 2:
                return sp.Max(ev(e.args[0]), ev(e.args[1]))
            return ("opaque", f)
        raise Outside(ast.unparse(e)[:50])

    for s in stmts:
        if isinstance(s, ast.Expr) and isinstance(s.value, ast.Constant):
            continue
        if isinstance(s, ast.Assign) and len(s.targets) == 1 and isinstance(s.targets[0], ast.Name):
            env[s.targets[0].id] = ev(s.value)
            continue
        if isinstance(s, ast.If) and not s.orelse and len(s.body) == 1 and isinstance(s.body[0], ast.Assign) and len(s.body[0].targets) == 1 \
                and isinstance(s.body[0].targets[0], ast.Name) and isinstance(s.test, ast.Compare) and len(s.test.ops) == 1:
            name = s.body[0].targets[0].id
            l, r = ev(s.test.left), ev(s.test.comparators[0])
            new = ev(s.body[0].value)
            old = env.get(name)
            if old is None or isinstance(old, tuple) or isinstance(new, tuple):
                raise Outside("conditional re-assignment of an unknown local")
            op = s.test.ops[0]
            cond = {ast.Lt: sp.Lt, ast.LtE: sp.Le, ast.Gt: sp.Gt, ast.GtE: sp.Ge}.get(type(op))
            if cond is None:
                raise Outside("comparison operator")
            env[name] = sp.Piecewise((new, cond(l, r)), (old, True))
            continue
        if isinstance(s, ast.Return) and s.value is not None:
            v = s.value
            if isinstance(v, (ast.List, ast.Tuple)):
                return [ev(x) for x in v.elts]
            return [ev(v)]
        raise Outside(f"statement {type(s).__name__} at line {s.lineno}")
    raise Outside("arm does not return")


def same(a, b) -> bool:
    try:
        d = sp.simplify(sp.piecewise_fold(a - b))
        if d == 0:
            return True
        # Piecewise((n+1, E < n+1), (E, True)) == Max(E, n+1): compare on the two regions
        E, n = sp.Symbol("estimate"), sp.Symbol("num_quanta")
        for subs in ({E: n + 5}, {E: n - 5}, {E: n + 1}, {E: n}):
            if sp.simplify(a.subs(subs) - b.subs(subs)) != 0:
                return False
        return True
    except Exception:
        return False
