"""pyvc driver: load real source, generate VCs, discharge, guard against vacuity, cross-check the
executor against CPython, small-scope search for concrete counterexamples."""
from __future__ import annotations

import ast
import importlib
import itertools
import json
import time
from typing import Any, Callable, Dict, List, Optional, Tuple

import z3

from vf import common
from vf.common import Obligation, Report
from .listexec import FrameViolation, ListExec, Outside, StaleContract, VC
from .sym import PyList, QConc, QSym, SList

VC_TIMEOUT_MS = 15000
BASELINE = common.VERIF / "contracts" / "baseline_obligations.json"


def load_function(relpath: str, qualname: str) -> Tuple[ast.AST, str, ast.Module]:
    src = (common.REPO / relpath).read_text()
    tree = ast.parse(src)
    node: Any = tree
    for part in qualname.split("."):
        found = None
        for ch in ast.iter_child_nodes(node):
            if isinstance(ch, (ast.FunctionDef, ast.ClassDef, ast.AsyncFunctionDef)) and ch.name == part:
                found = ch
                break
        if found is None:
            raise KeyError(f"{relpath}::{qualname} not found")
        node = found
    return node, ast.get_source_segment(src, node) or "", tree


def solve(hyps, goal, timeout_ms=VC_TIMEOUT_MS):
    s = z3.Solver()
    s.set("timeout", timeout_ms)
    for h in hyps:
        s.add(h)
    s.add(z3.Not(goal))
    t = time.time()
    r = s.check()
    dt = time.time() - t
    model = None
    if r == z3.sat:
        try:
            m = s.model()
            model = {str(d): str(m[d]) for d in m.decls() if d.arity() == 0 and not str(d).startswith(("q", "k!", "dk", "dj", "m!"))}
        except Exception:
            model = None
    reason = ""
    if r == z3.unknown:
        reason = s.reason_unknown()
    return ("discharged" if r == z3.unsat else ("failed" if r == z3.sat else "unknown")), dt, model, reason


def baseline_ids() -> Dict[str, List[str]]:
    if BASELINE.exists():
        return json.loads(BASELINE.read_text())
    return {}


# --------------------------------------------------------------------------------------------------
def parse_einsum(s: str) -> List[List[int]]:
    """'ab,cd->ef' -> [[0,1],[2,3],[4,5]] (the inverse of the rendering abstraction)."""
    lhs, rhs = s.split("->")
    parts = lhs.split(",") + [rhs]
    return [[ord(ch) - 97 for ch in p] for p in parts]


def verify_generator(c, rep: Report, props_note: str = "") -> bool:
    """Verify one einsum-string generator against its contract `c`.  Returns True iff everything is
    discharged.  Records obligations, violations, undecided items in `rep`."""
    fq = f"{c.path}::{c.name}"
    try:
        fn, src, _ = load_function(c.path, c.name)
    except (KeyError, SyntaxError, FileNotFoundError) as ex:
        rep.undecided.append(f"{fq}: cannot load function ({ex})")
        return False
    rep.add_function(fq, c.path, src, "P (proved by pyvc+z3)")
    q = QSym()
    params, G, pre = c.sym_inputs()
    obs: List[Obligation] = []
    all_ok = True
    notes = []
    try:
        # ghost lemmas proved by induction on i in [0, n] (recursive-lemma style), then assumed
        lemma_vcs = []
        for nm, P, flats in c.induction_lemmas(q, G):
            i = z3.Int("li!" + nm)
            lemma_vcs.append(VC(f"lemma:{nm}:base", "lemma", list(pre), P(z3.IntVal(0))))
            lemma_vcs.append(VC(f"lemma:{nm}:step", "lemma", list(pre) + [0 <= i, i < G.n, P(i)], P(i + 1)))
            nested = z3.ForAll([i], z3.Implies(z3.And(0 <= i, i <= G.n), P(i)))
            for fn_, fl in flats:   # quantifier-flattened corollaries, each proved from the induction result
                lemma_vcs.append(VC(f"lemma:{nm}:corollary:{fn_}", "lemma", list(pre) + [nested], fl))
                pre = pre + [fl]
        ex = ListExec(fn, params, pre, c.invariants(q, G))
        ex.vcs.extend(lemma_vcs)
        ret = ex.run()
        lists = check_ret_shape(ret, c.ret_shape)
        for nm, f in c.post(q, G, lists):
            ex.vcs.append(VC(f"ensures:{nm}", "ensures", list(ex.path), f))
        # vacuity guards
        cover = z3.Solver(); cover.set("timeout", 5000)
        for h in pre:
            cover.add(h)
        cv = c.cover(G)
        for h in cv:
            cover.add(h)
        r = cover.check()
        obs.append(Obligation(f"{fq}::cover:requires", fq, "cover", "z3",
                              "discharged" if r == z3.sat else ("failed" if r == z3.unsat else "unknown"),
                              detail="precondition satisfiable (with a non-trivial instance)"))
        can = z3.Solver(); can.set("timeout", 5000)
        for h in ex.path:
            can.add(h)
        r = can.check()
        obs.append(Obligation(f"{fq}::canary:ensures-false", fq, "canary", "z3",
                              "discharged" if r != z3.unsat else "failed",
                              detail="`ensures False` is not provable: final path facts are not contradictory (%s)" % r))
        for vc in ex.vcs:
            st, dt, model, reason = solve(vc.hyps, vc.goal)
            obs.append(Obligation(f"{fq}::{vc.name}", fq, vc.kind, "z3", st, dt, reason, model))
        obs.append(Obligation(f"{fq}::frame:inputs-not-mutated", fq, "frame", "dataflow", "discharged",
                              detail="no mutating call / subscript store / rebinding on a parameter; no aliasing of list locals"))
    except FrameViolation as fv:
        obs.append(Obligation(f"{fq}::frame:inputs-not-mutated", fq, "frame", "dataflow", "failed", detail=str(fv)))
    except (Outside, StaleContract, z3.Z3Exception, AttributeError, TypeError, IndexError, KeyError) as e2:
        notes.append(f"{type(e2).__name__}: {e2}")
        obs.append(Obligation(f"{fq}::subset", fq, "subset", "pyvc", "unknown", detail=f"{type(e2).__name__}: {e2}"))
    subset_only = any(o.kind == "subset" for o in obs) and not any(o.status == "failed" for o in obs)
    for o in obs:
        if not (subset_only and o.kind == "subset"):
            rep.add_ob(o)
        if o.status != "discharged":
            all_ok = False
    if len(rep.obligation_samples) < 6:
        rep.obligation_samples.append({"function": fq, "obligations": [o.oid.split("::")[-1] for o in obs][:10]})

    # ---- executor cross-check against CPython + small-scope search on the real function ----------
    real = load_real(c)
    bad_engine, failing = None, None
    checked = 0
    scope_n = 4 if all_ok else 5
    for S, A in c.small_scope(scope_n):
        try:
            out = real(list(S), list(A))
            lists_c = parse_einsum(out)
        except Exception as e3:   # the real function raising inside its precondition is a violation of the contract
            failing = (S, A, f"raised {type(e3).__name__}: {e3}", None)
            break
        Gc = c.conc_ghost(S, A)
        qc = QConc()
        bad = [nm for nm, ok in c.post(qc, Gc, lists_c) if not ok]
        if S != list(S) or False:
            pass
        checked += 1
        if bad and failing is None:
            failing = (S, A, "postcondition clauses failed: " + ", ".join(bad), out)
            break
    # cross-check (a few inputs): unrolled symbolic execution must reproduce CPython's output
    if failing is None:
        for S, A in itertools.islice(c.small_scope(3), 0, 40):
            try:
                sym_out = run_unrolled(fn, c, S, A)
                real_out = parse_einsum(real(list(S), list(A)))
            except (Outside, StaleContract, z3.Z3Exception) as e4:
                sym_out = real_out = None
                break
            if sym_out != real_out:
                bad_engine = f"{fq}: executor disagrees with CPython on S={S} A={A}: {sym_out} vs {real_out}"
                break
    if bad_engine:
        rep.broken.append(bad_engine)
    rep.notes.append(f"{fq}: small-scope search on the real function: {checked} inputs (n<={scope_n}); cross-check ok={bad_engine is None}")
    base = baseline_ids().get(fq, [])
    if failing is not None:
        S, A, why, out = failing
        rep.violation(
            f"{fq} violates its contract on state_objs={S}, second list={A}: {why}" + (f" (returned {out!r})" if out else ""),
            key=f"P:{fq}:{why.split(':')[0]}:{sorted(why.split(': ')[-1].split(', '))[:1]}",
            replay={"kind": "generator", "path": c.path, "function": c.name, "state_objs": S, "second": A,
                    "observed": out, "why": why, "contract": c.__class__.__name__,
                    "failed_obligations": [o.oid for o in obs if o.status != "discharged"],
                    "solver_output": [{"id": o.oid, "status": o.status, "model": o.model, "detail": o.detail} for o in obs if o.status != "discharged"]})
    elif not all_ok:
        sat_regress = [o for o in obs if o.status == "failed" and o.oid in base]
        if sat_regress:
            rep.violation(
                f"{fq}: obligation(s) discharged on the pinned tree are now refuted by z3: " + ", ".join(o.oid.split('::')[-1] for o in sat_regress),
                key=f"P:{fq}:refuted:" + ",".join(sorted(o.oid for o in sat_regress)),
                replay={"kind": "obligation", "path": c.path, "function": c.name,
                        "failed_obligations": [o.oid for o in sat_regress],
                        "solver_output": [{"id": o.oid, "status": o.status, "model": o.model} for o in sat_regress]},
                no_input=True)
        elif subset_only:
            # the VC generator cannot read the (edited) text; the exhaustive small-scope search on the real function above found nothing
            rep.not_covered(fq, src, f"VC generation: {'; '.join(notes)[:200]} - small-scope search on the real function: {checked} inputs (n <= {scope_n}), contract holds")
        else:
            rep.undecided.append(f"{fq}: " + "; ".join(f"{o.oid.split('::')[-1]}={o.status}" for o in obs if o.status != "discharged")[:400]
                                 + (" | " + "; ".join(notes) if notes else ""))
    return all_ok and failing is None


def check_ret_shape(ret, shape):
    if not (isinstance(ret, tuple) and ret[0] == "fstring"):
        raise Outside("return value is not the einsum f-string")
    items = ret[1]
    if len(items) != len(shape):
        raise StaleContract("einsum string has a different number of operands than the contract expects")
    lists = []
    for it, sh in zip(items, shape):
        if sh == "L":
            if not isinstance(it, SList):
                raise StaleContract("operand is not a rendered label list")
            lists.append(it)
        elif it != sh:
            raise StaleContract(f"separator {it!r} where {sh!r} expected")
    return lists


def load_real(c) -> Callable:
    common.use_repo()
    mod = importlib.import_module(c.path[:-3].replace("/", "."))
    return getattr(mod, c.name)


def run_unrolled(fn, c, S, A) -> List[List[int]]:
    def mk(xs):
        l = SList.empty()
        for x in xs:
            l = l.append(z3.IntVal(x))
        return SList(z3.IntVal(len(xs)), l.arr)
    names = [a.arg for a in fn.args.args]
    ex = ListExec(fn, {names[0]: mk(S), names[1]: mk(A)}, [], {}, unroll=True)
    ret = ex.run()
    lists = check_ret_shape(ret, c.ret_shape)
    out = []
    for L in lists:
        n = z3.simplify(L.len).as_long()
        out.append([z3.simplify(L.at(i)).as_long() for i in range(n)])
    return out
