"""./check replay <file>: re-runs a recorded violation against $VERIF_REPO's real code and re-evaluates the contract.
Exit 1 if the violation reproduces, 0 if it no longer does, 2 if the record has no executable input (obligation only)."""
from __future__ import annotations

import json
import sys

from vf import common


def main(argv) -> int:
    if not argv:
        print("usage: ./check replay <file>")
        return 3
    rec = json.load(open(argv[0]))
    common.use_repo()
    kind = rec.get("kind")
    print(f"property={rec.get('property')} kind={kind}\n  {rec.get('what')}")
    if kind == "cell":
        from vf.rtc import cells as CE
        CE._init_worker()
        r = CE.run_cell(rec["cell"])
        if r.get("error"):
            print("harness error:", r["error"])
            return 3
        hit = [c for c in r["clauses"] if c["clause"] == rec["clause"] and not c["ok"]]
        for c in hit:
            print(f"  REPRODUCED: {c['method']} breaks '{c['clause']}': {c['detail'][:300]}")
        if not hit:
            print("  not reproduced: the clause holds on the current tree")
        return 1 if hit else 0
    if kind == "generator":
        from contracts.proof import einsum
        from vf.pyvc import engine
        from vf.pyvc.sym import QConc
        c = einsum.BY_NAME[rec["function"]]
        real = engine.load_real(c)
        S, A = rec["state_objs"], rec["second"]
        try:
            out = real(list(S), list(A))
        except Exception as ex:
            print(f"  REPRODUCED: raised {type(ex).__name__}: {ex}")
            return 1
        bad = [nm for nm, ok in c.post(QConc(), c.conc_ghost(S, A), engine.parse_einsum(out)) if not ok]
        print(f"  returned {out!r}; failing clauses: {bad}")
        return 1 if bad else 0
    if kind == "history":
        from vf.rtc import cells as CE, graphcheck as G
        CE._init_worker()
        r = G.run_history([tuple(s) for s in rec["history"]])
        for f in r["fails"]:
            print(f"  REPRODUCED: {f['clause']}: {f['detail'][:300]}")
        return 1 if r["fails"] else 0
    if kind == "interpreter":
        print("  input:", rec.get("expr"), "|", rec.get("why"))
        print("  (re-run `./check C16` to re-evaluate: the expression contains arrays that are regenerated from a fixed seed)")
        return 2
    print("  no executable input recorded (obligation-level violation); failed obligations:")
    for o in rec.get("failed_obligations", []):
        print("   -", o)
    print("  solver output:", json.dumps(rec.get("solver_output"), default=str)[:600])
    return 2
