#!/usr/bin/env python3
"""Collects {function under contract: hash of its source text} from the evidence of a full run on /repo's HEAD and writes
contracts/baseline_functions.json.  `Report.not_covered` uses it to tell "the contract cannot be evaluated on the very text it was written
for" (undecided, exit 2) from "the function was edited and the contract no longer applies" (dropped, printed, bounded contracts decide)."""
import glob, json, os
here = os.path.dirname(os.path.dirname(os.path.abspath(__file__)))
out = {}
for f in sorted(glob.glob(os.path.join(here, "evidence", "C*.json"))):
    ev = json.load(open(f))
    fu = ev.get("functions_under_contract") or ev.get("coverage", {}).get("functions_under_contract") or {}
    if isinstance(fu, dict):
        for fq, d in fu.items():
            if isinstance(d, dict) and "sha256_16" in d:
                out[fq] = d["sha256_16"]
json.dump(out, open(os.path.join(here, "contracts", "baseline_functions.json"), "w"), indent=0, sort_keys=True)
print(len(out), "functions")
