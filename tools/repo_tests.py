#!/usr/bin/env python3
"""Runs /repo's unedited test suite (parallel) and compares with the stable-pass set of /root/.vp/BASELINE.json."""
import json, subprocess, sys, tempfile, xml.etree.ElementTree as ET, os
repo = sys.argv[1] if len(sys.argv) > 1 else "/repo"
base = json.load(open("/root/.vp/BASELINE.json"))
with tempfile.NamedTemporaryFile(suffix=".xml", delete=False) as f:
    xml = f.name
env = dict(os.environ); env.pop("PHOTON_WEAVE_VERIF", None)
subprocess.run(["/venv/bin/python", "-m", "pytest", "-q", "-p", "no:cacheprovider", "--timeout=900", 
                "--continue-on-collection-errors", f"--junitxml={xml}"], cwd=repo, env=env,
               stdout=subprocess.DEVNULL, stderr=subprocess.DEVNULL)
passed = set()
for tc in ET.parse(xml).getroot().iter("testcase"):
    if not any(ch.tag in ("failure", "error", "skipped") for ch in tc):
        passed.add(f"{tc.get('classname')}::{tc.get('name')}")
os.unlink(xml)
missing = [t for t in base["stable_pass"] if t not in passed]
print(f"passed={len(passed)} baseline_stable={len(base['stable_pass'])} missing_from_baseline={len(missing)}")
for m in missing: print("  MISSING", m)
newly = sorted(passed - set(base["stable_pass"]))
if newly: print("  newly passing:", newly)
sys.exit(1 if missing else 0)
