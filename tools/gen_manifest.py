#!/usr/bin/env python3
"""Regenerates MANIFEST.json from tools/manifest_src.py (single source of truth for claimed checks)."""
import json, sys, pathlib
here = pathlib.Path(__file__).resolve().parent
sys.path.insert(0, str(here))
import manifest_src as S
props = [json.loads(l) for l in open(here.parent / "properties.jsonl")]
ids = [p["id"] for p in props]
checks = []
for pid in ids:
    c = S.CHECKS.get(pid)
    if not c:
        continue
    checks.append({
        "property_id": pid,
        "quick_cmd": f"./check {pid} --tier quick",
        "thorough_cmd": f"./check {pid} --tier thorough",
        "evidence_file": f"/verif/evidence/{pid}.json",
        "replay_cmd_template": "./check replay {path}",
        "engine": c.get("engine", "pyvc+rtc"),
        "level_claimed": {"category": c["category"], "text": c["text"], "design_ref": c.get("design_ref", "DESIGN.md section 7")},
        "level_note": c["note"],
        "technique": c["technique"],
    })
na = [{"property_id": pid, "reason": S.NOT_APPLICABLE.get(pid, "check not built yet in this round; see DESIGN.md build order")}
      for pid in ids if pid not in S.CHECKS]
m = {
    "version": 1,
    "setup_cmd": "./setup.sh",
    "hooks": {
        "guard": "PHOTON_WEAVE_VERIF",
        "enable": "no source hooks: contracts are sidecars under /verif; checks export PHOTON_WEAVE_VERIF=1 only as a marker",
        "baseline_off_cmd": "cd /repo && /venv/bin/python -m pytest -ra -q -p no:cacheprovider --timeout=900 --continue-on-collection-errors",
        "source_commits": S.HOOK_COMMITS,
        "add_only": True,
    },
    "engines": S.ENGINES,
    "checks": checks,
    "notes": S.NOTES,
    "not_applicable": na,
}
(here.parent / "MANIFEST.json").write_text(json.dumps(m, indent=1) + "\n")
import jsonschema
jsonschema.validate(m, json.load(open("/root/.vp/MANIFEST.schema.json")))
print("MANIFEST ok:", len(checks), "checks,", len(na), "not_applicable")
