HOOK_COMMITS = []
ENGINES = [
    {"name": "pyvc", "path": "/verif/vf/pyvc", "serves_properties": [],
     "kind_free_text": "own verification-condition generator: symbolic execution of the real /repo AST against sidecar contracts, discharged by z3 (level P, proved)"},
    {"name": "rtc", "path": "/verif/vf/rtc", "serves_properties": [],
     "kind_free_text": "run-time-checked contracts (icontract sidecar wrappers + ghost view/well_formed) on a bounded enumeration of constructed pre-states with forced measurement outcomes (level B, bounded, never counted as proved)"},
]
NOTES = "See DESIGN.md. Level P = proved by pyvc+z3 from the real AST; level B = bounded run-time contracts, always labelled bounded."
MIXED_NOTE = ("Trusted: z3, the pyvc executor (own code, cross-checked against CPython on every run), JAX numerics, NumPy/SciPy oracle. "
              "Level-B part is a bounded enumeration (structures and operand choices enumerated, amplitudes sampled) and is labelled bounded in the evidence; "
              "only level-P obligations are counted under obligations/discharged.")
CHECKS = {
    "C01": {"category": "other",
            "text": "Kernel contracts proved for all inputs by pyvc+z3 (einsum binding patterns, definedness of names on all routing paths); "
                    "the routing shells are checked by run-time contracts (joint state == (O x I) rho (O x I)^dagger against an independent oracle) "
                    "on a bounded enumeration of entry points x layouts x levels x state classes x operation types. Bounded part never counted as proved.",
            "note": MIXED_NOTE,
            "technique": "contract-based: pyvc VC generation from the real AST + z3 for kernels; sidecar run-time contracts on enumerated pre-states (bounded) for shells"},
}
NOT_APPLICABLE = {}
