HOOK_COMMITS = []
ENGINES = [
    {"name": "pyvc", "path": "/verif/vf/pyvc", "serves_properties": [],
     "kind_free_text": "own verification-condition generator: symbolic execution of the real /repo AST against sidecar contracts, discharged by z3 (level P, proved)"},
    {"name": "rtc", "path": "/verif/vf/rtc", "serves_properties": [],
     "kind_free_text": "run-time-checked contracts (icontract sidecar wrappers + ghost view/well_formed) on a bounded enumeration of constructed pre-states with forced measurement outcomes (level B, bounded, never counted as proved)"},
]
NOTES = "See DESIGN.md. Level P = proved by pyvc+z3 from the real AST; level B = bounded run-time contracts, always labelled bounded."
CHECKS = {}
NOT_APPLICABLE = {}
